//! Worker process: runs one shard of a property's sections, in a big-stack thread, with
//! catch_unwind per case, a shared-memory "current case" record for the orchestrator's
//! watchdog / crash attribution, and periodic checkpoints.

use crate::choices::{fnv, mix};
use crate::core::*;
use crate::known::Known;
use proptest::strategy::{Strategy, ValueTree};
use proptest::test_runner::{Config, RngAlgorithm, TestRng, TestRunner};
use serde_json::{json, Value};
use std::cell::RefCell;
use std::collections::BTreeMap;
use std::io::Write;
use std::panic::{catch_unwind, AssertUnwindSafe};
use std::path::{Path, PathBuf};
use std::time::{Instant, SystemTime, UNIX_EPOCH};

pub const CUR_CAP: usize = 1 << 20;
pub const CUR_HDR: usize = 40;

thread_local! {
    static LAST_PANIC: RefCell<Option<(String, String)>> = const { RefCell::new(None) };
}

pub fn install_panic_hook() {
    std::panic::set_hook(Box::new(|info| {
        let loc = info
            .location()
            .map(|l| format!("{}:{}", l.file(), l.line()))
            .unwrap_or_else(|| "?".to_string());
        let msg = if let Some(s) = info.payload().downcast_ref::<&str>() {
            s.to_string()
        } else if let Some(s) = info.payload().downcast_ref::<String>() {
            s.clone()
        } else {
            "<non-string panic>".to_string()
        };
        LAST_PANIC.with(|p| *p.borrow_mut() = Some((loc, msg)));
    }));
}

pub fn take_panic() -> (String, String) {
    LAST_PANIC
        .with(|p| p.borrow_mut().take())
        .unwrap_or_else(|| ("?".to_string(), "?".to_string()))
}

pub fn now_ms() -> u64 {
    SystemTime::now()
        .duration_since(UNIX_EPOCH)
        .map(|d| d.as_millis() as u64)
        .unwrap_or(0)
}

/// mmap-backed record of the case in flight
pub struct Cur {
    ptr: *mut u8,
}

static HEARTBEAT_PTR: std::sync::atomic::AtomicPtr<u8> = std::sync::atomic::AtomicPtr::new(std::ptr::null_mut());

/// refresh the in-flight case's timestamp (long shrink / reduce loops call this so that the
/// watchdog only fires on a single judge call that does not return)
pub fn heartbeat() {
    let p = HEARTBEAT_PTR.load(std::sync::atomic::Ordering::Relaxed);
    if !p.is_null() {
        unsafe {
            std::ptr::write_volatile(p.add(24) as *mut u64, now_ms());
        }
    }
}
unsafe impl Send for Cur {}

impl Cur {
    pub fn create(path: &Path) -> Cur {
        use std::os::unix::io::AsRawFd;
        let f = std::fs::OpenOptions::new()
            .read(true)
            .write(true)
            .create(true)
            .truncate(true)
            .open(path)
            .expect("cur file");
        f.set_len((CUR_HDR + CUR_CAP) as u64).expect("set_len");
        let ptr = unsafe {
            libc::mmap(
                std::ptr::null_mut(),
                CUR_HDR + CUR_CAP,
                libc::PROT_READ | libc::PROT_WRITE,
                libc::MAP_SHARED,
                f.as_raw_fd(),
                0,
            )
        };
        assert!(ptr != libc::MAP_FAILED, "mmap failed");
        HEARTBEAT_PTR.store(ptr as *mut u8, std::sync::atomic::Ordering::Relaxed);
        Cur { ptr: ptr as *mut u8 }
    }
    /// layout: sec u32 | kind u32 (0 idle,1 index,2 bytes) | k u64 | idx u64 | ms u64 | len u32 | pad u32 | data
    pub fn set(&self, sec: u32, k: u64, input: &Input) {
        unsafe {
            let p = self.ptr;
            // mark idle while rewriting
            std::ptr::write_volatile(p.add(4) as *mut u32, 0);
            std::ptr::write_volatile(p as *mut u32, sec);
            std::ptr::write_volatile(p.add(8) as *mut u64, k);
            let (kind, idx, data): (u32, u64, &[u8]) = match input {
                Input::Index(i) => (1, *i, &[]),
                Input::Bytes(b) => (2, 0, b),
            };
            std::ptr::write_volatile(p.add(16) as *mut u64, idx);
            std::ptr::write_volatile(p.add(24) as *mut u64, now_ms());
            let n = data.len().min(CUR_CAP);
            std::ptr::write_volatile(p.add(32) as *mut u32, n as u32);
            std::ptr::copy_nonoverlapping(data.as_ptr(), p.add(CUR_HDR), n);
            std::ptr::write_volatile(p.add(4) as *mut u32, kind);
        }
    }
    pub fn idle(&self) {
        set_phase(0);
        unsafe {
            std::ptr::write_volatile(self.ptr.add(4) as *mut u32, 0);
        }
    }
}

pub struct CurSnapshot {
    pub phase: u32,
    pub sec: u32,
    pub kind: u32,
    pub k: u64,
    pub idx: u64,
    pub ms: u64,
    pub data: Vec<u8>,
}

pub fn read_cur(path: &Path) -> Option<CurSnapshot> {
    let raw = std::fs::read(path).ok()?;
    if raw.len() < CUR_HDR {
        return None;
    }
    let u32at = |o: usize| u32::from_ne_bytes(raw[o..o + 4].try_into().unwrap());
    let u64at = |o: usize| u64::from_ne_bytes(raw[o..o + 8].try_into().unwrap());
    let len = (u32at(32) as usize).min(raw.len() - CUR_HDR);
    Some(CurSnapshot {
        phase: u32at(36),
        sec: u32at(0),
        kind: u32at(4),
        k: u64at(8),
        idx: u64at(16),
        ms: u64at(24),
        data: raw[CUR_HDR..CUR_HDR + len].to_vec(),
    })
}

pub struct WorkerArgs {
    pub tier: Tier,
    pub seed: u64,
    pub shard: usize,
    pub nshards: usize,
    pub dir: PathBuf,
    pub root: PathBuf,
    pub resume: Option<(usize, u64)>,
    pub segment: usize,
}

#[derive(Default)]
struct ViolBook {
    /// sig -> (count, first shrunk example json)
    by_sig: BTreeMap<String, (u64, Value)>,
    known_hits: BTreeMap<String, (u64, Value)>,
    shrinks_done: usize,
}

fn viol_json(prop: &dyn Prop, sec: &str, input: &Input, v: &Viol, tier: Tier, seed: u64) -> Value {
    let (choices_hex, index) = match input {
        Input::Bytes(b) => (Some(hex(b)), None),
        Input::Index(i) => (None, Some(*i)),
    };
    json!({
        "property": prop.id(),
        "section": sec,
        "tier": tier.name(),
        "seed": seed,
        "choices_hex": choices_hex,
        "index": index,
        "signature": v.sig,
        "expected": v.expected,
        "observed": v.observed,
        "case": v.case,
    })
}

pub fn run_one(prop: &dyn Prop, sec: &str, input: &Input, tier: Tier, st: &mut Stats) -> Verdict {
    let r = catch_unwind(AssertUnwindSafe(|| prop.run(sec, input, tier, st)));
    match r {
        Ok(v) => v,
        Err(_) => {
            let (loc, msg) = take_panic();
            let short: String = msg.chars().take(300).collect();
            // a panic inside the code under test, in a property that is not about crashing and
            // whose statement only speaks about inputs the tools accept: recorded, not a verdict
            // (C14 owns crashes).  A panic inside the harness itself is always reported.
            if !prop.sut_crash_is_violation() && loc.starts_with("/repo/") {
                st.label("sut-panicked(recorded, C14's subject)");
                st.reject(&format!("[panic] {loc}: {}", short.chars().take(80).collect::<String>()));
                return Verdict::Skip("the code under test panicked (outside this property; see C14)");
            }
            let case = match input {
                Input::Bytes(b) => json!({"choices_hex": hex(b), "note": "case panicked; decode with `vcheck describe`"}),
                Input::Index(i) => json!({"index": i}),
            };
            Verdict::Violation(Box::new(Viol::new(
                &format!("panic@{loc}"),
                "no panic",
                format!("panic at {loc}: {short}"),
                case,
            )))
        }
    }
}

fn same_failure(prop: &dyn Prop, sec: &str, bytes: &[u8], tier: Tier, sig: &str) -> Option<Viol> {
    heartbeat();
    let mut scratch = Stats {
        scratch: true,
        ..Default::default()
    };
    match run_one(prop, sec, &Input::Bytes(bytes), tier, &mut scratch) {
        Verdict::Violation(v) if v.sig == sig => Some(*v),
        _ => None,
    }
}

/// proptest's own shrink algorithm (simplify / complicate), driven manually so that the
/// search can continue after a failure and so that "same failure" means "same signature".
fn shrink<T: ValueTree<Value = Vec<u8>>>(
    prop: &dyn Prop,
    sec: &str,
    tree: &mut T,
    tier: Tier,
    first: Viol,
) -> (Vec<u8>, Viol) {
    let sig = first.sig.clone();
    let mut best_bytes = tree.current();
    let mut best = first;
    let start = Instant::now();
    let mut iters = 0usize;
    let budget_iters = 3000usize;
    let budget_s = 45u64;
    'outer: loop {
        if !tree.simplify() {
            break;
        }
        loop {
            iters += 1;
            if iters > budget_iters || start.elapsed().as_secs() > budget_s {
                break 'outer;
            }
            let cur = tree.current();
            if let Some(v) = same_failure(prop, sec, &cur, tier, &sig) {
                best_bytes = cur;
                best = v;
                continue 'outer;
            }
            if !tree.complicate() {
                break 'outer;
            }
        }
    }
    (best_bytes, best)
}

struct Ctx<'a> {
    prop: &'a dyn Prop,
    args: &'a WorkerArgs,
    known: Known,
    st: Stats,
    book: ViolBook,
    cur: Cur,
    last_ckpt: Instant,
    pos: (usize, u64),
    unlabelled: u64,
}

impl<'a> Ctx<'a> {
    fn record(&mut self, sec: &str, input: &Input, v: Viol) {
        let tier = self.args.tier;
        let seed = self.args.seed;
        let entry_json = viol_json(self.prop, sec, input, &v, tier, seed);
        if let Some(kid) = self.prop.known(&v) {
            if self.known.active(self.prop.id(), kid) {
                let e = self
                    .book
                    .known_hits
                    .entry(kid.to_string())
                    .or_insert((0, entry_json));
                e.0 += 1;
                return;
            }
        }
        let e = self.book.by_sig.entry(v.sig.clone()).or_insert((0, entry_json));
        e.0 += 1;
    }

    fn checkpoint(&mut self, done: bool) {
        let keys: Vec<u8> = self
            .st
            .nontrivial_keys
            .iter()
            .flat_map(|k| k.to_le_bytes())
            .collect();
        let base = format!("shard-{}.seg{}", self.args.shard, self.args.segment);
        let kp = self.args.dir.join(format!("{base}.keys"));
        let jp = self.args.dir.join(format!("{base}.json"));
        let tmpk = self.args.dir.join(format!("{base}.keys.tmp"));
        let tmpj = self.args.dir.join(format!("{base}.json.tmp"));
        let _ = std::fs::write(&tmpk, &keys);
        let _ = std::fs::rename(&tmpk, &kp);
        let viols: Vec<Value> = self
            .book
            .by_sig
            .iter()
            .map(|(s, (n, j))| json!({"sig": s, "count": n, "example": j}))
            .collect();
        let knowns: Vec<Value> = self
            .book
            .known_hits
            .iter()
            .map(|(s, (n, j))| json!({"id": s, "count": n, "example": j}))
            .collect();
        let j = json!({
            "done": done,
            "next": [self.pos.0, self.pos.1],
            "evaluations": self.st.evaluations,
            "passes": self.st.passes,
            "labels": self.st.labels,
            "skipped": self.st.skipped,
            "nontrivial_enum": self.st.nontrivial_enum,
            "samples": self.st.samples,
            "generator_rejects": self.st.generator_rejects,
            "reject_msgs": self.st.reject_msgs,
            "excluded_by_construction": self.st.excluded_by_construction,
            "violations": viols,
            "known_hits": knowns,
            "unlabelled": self.unlabelled,
        });
        if let Ok(mut f) = std::fs::File::create(&tmpj) {
            let _ = f.write_all(serde_json::to_string(&j).unwrap().as_bytes());
        }
        let _ = std::fs::rename(&tmpj, &jp);
        self.last_ckpt = Instant::now();
    }

    fn after_case(&mut self, sec: &str, input: &Input, verdict: Verdict) -> Option<Viol> {
        self.st.evaluations += 1;
        match verdict {
            Verdict::Pass => {
                self.st.passes += 1;
                None
            }
            Verdict::Skip(r) => {
                *self.st.skipped.entry(r.to_string()).or_insert(0) += 1;
                None
            }
            Verdict::Violation(v) => {
                let _ = (sec, input);
                Some(*v)
            }
        }
    }
}

pub fn worker_main(prop: &'static dyn Prop, args: WorkerArgs) -> i32 {
    install_panic_hook();
    let handle = std::thread::Builder::new()
        .stack_size(1 << 30)
        .spawn(move || worker_body(prop, args))
        .expect("spawn worker thread");
    handle.join().unwrap_or(3)
}

fn worker_body(prop: &'static dyn Prop, args: WorkerArgs) -> i32 {
    let cur = Cur::create(&args.dir.join(format!("shard-{}.cur", args.shard)));
    let known = Known::load(&args.root);
    let mut cx = Ctx {
        prop,
        args: &args,
        known,
        st: Stats::default(),
        book: ViolBook::default(),
        cur,
        last_ckpt: Instant::now(),
        pos: (0, 0),
        unlabelled: 0,
    };
    let tier = args.tier;
    let mut sections = vec![];
    // section 0: committed replays (regressions of fixed findings, examples of known findings)
    let replays = if args.shard == 0 {
        crate::replay::committed_replays(&args.root, prop.id())
    } else {
        vec![]
    };
    sections.push(Section {
        name: "replays",
        kind: SectionKind::Enum {
            count: replays.len() as u64,
        },
        exhaustive: false,
        what: "committed replay files (regressions of fixed findings, examples of known findings)",
    });
    sections.extend(prop.sections(tier));

    let (rsec, rk) = args.resume.unwrap_or((0, 0));
    for (si, sec) in sections.iter().enumerate() {
        if si < rsec {
            continue;
        }
        let start_k = if si == rsec { rk } else { 0 };
        match &sec.kind {
            SectionKind::Enum { count } => {
                if si == 0 {
                    // replays
                    for (k, (path, val)) in replays.iter().enumerate() {
                        if (k as u64) < start_k {
                            continue;
                        }
                        cx.pos = (si, k as u64);
                        let input = Input::Index(k as u64);
                        cx.cur.set(si as u32, k as u64, &input);
                        let verdict = crate::replay::run_replay(prop, val, tier, &mut cx.st);
                        cx.cur.idle();
                        cx.st.label("replay_file");
                        if let Some(mut v) = cx.after_case(sec.name, &input, verdict) {
                            if let Some(o) = v.case.as_object_mut() {
                                o.insert("replay_file".into(), json!(path));
                            }
                            // known-example replays are expected to fail with a known signature
                            cx.record("replays", &input, v);
                        }
                    }
                    continue;
                }
                cx.st.in_enum = true;
                let n = args.nshards as u64;
                let mine = if *count > args.shard as u64 {
                    (*count - args.shard as u64).div_ceil(n)
                } else {
                    0
                };
                let step = (mine / 3).max(1);
                for k in start_k..mine {
                    let idx = k * n + args.shard as u64;
                    cx.pos = (si, k);
                    let input = Input::Index(idx);
                    cx.cur.set(si as u32, k, &input);
                    if k % step == 0 {
                        cx.st.want_sample = true;
                    }
                    let verdict = run_one(prop, sec.name, &input, tier, &mut cx.st);
                    if let Some(v) = cx.after_case(sec.name, &input, verdict) {
                        cx.record(sec.name, &input, v);
                    }
                    if cx.last_ckpt.elapsed().as_secs() >= 3 {
                        cx.pos = (si, k + 1);
                        cx.checkpoint(false);
                    }
                }
                cx.st.in_enum = false;
                cx.cur.idle();
            }
            SectionKind::Random { cases, maxlen } => {
                let n = args.nshards as u64;
                // development aid: VERIF_SCALE scales the number of generated cases
                let scale: f64 = std::env::var("VERIF_SCALE").ok().and_then(|s| s.parse().ok()).unwrap_or(1.0);
                let cases = &(((*cases as f64) * scale) as u64);
                let mine = cases / n + if (args.shard as u64) < cases % n { 1 } else { 0 };
                let s = mix(&[args.seed, fnv(prop.id().as_bytes()), fnv(sec.name.as_bytes()), args.shard as u64]);
                let mut seed32 = [0u8; 32];
                for i in 0..4 {
                    seed32[i * 8..i * 8 + 8].copy_from_slice(&mix(&[s, i as u64]).to_le_bytes());
                }
                let config = Config {
                    failure_persistence: None,
                    ..Config::default()
                };
                let mut runner =
                    TestRunner::new_with_rng(config, TestRng::from_seed(RngAlgorithm::ChaCha, &seed32));
                let strat = proptest::collection::vec(proptest::num::u8::ANY, 0..=*maxlen);
                let step = (mine / 3).max(1);
                for k in 0..mine {
                    let mut tree = match strat.new_tree(&mut runner) {
                        Ok(t) => t,
                        Err(_) => continue,
                    };
                    if k < start_k {
                        continue;
                    }
                    let bytes = tree.current();
                    cx.pos = (si, k);
                    let input = Input::Bytes(&bytes);
                    cx.cur.set(si as u32, k, &input);
                    if k % step == 0 {
                        cx.st.want_sample = true;
                    }
                    let verdict = run_one(prop, sec.name, &input, tier, &mut cx.st);
                    if let Some(v) = cx.after_case(sec.name, &input, verdict) {
                        // shrink only the first few distinct signatures
                        let seen = cx.book.by_sig.contains_key(&v.sig)
                            || cx
                                .prop
                                .known(&v)
                                .map(|k| cx.book.known_hits.contains_key(k))
                                .unwrap_or(false);
                        if !seen && cx.book.shrinks_done < 8 {
                            cx.book.shrinks_done += 1;
                            let (b2, v2) = shrink(prop, sec.name, &mut tree, tier, v);
                            let v3 = catch_unwind(AssertUnwindSafe(|| prop.reduce(sec.name, &Input::Bytes(&b2), tier, &v2)))
                                .ok()
                                .flatten()
                                .unwrap_or(v2);
                            cx.record(sec.name, &Input::Bytes(&b2), v3);
                        } else {
                            cx.record(sec.name, &input, v);
                        }
                    }
                    if cx.last_ckpt.elapsed().as_secs() >= 3 {
                        cx.pos = (si, k + 1);
                        cx.checkpoint(false);
                    }
                }
                cx.cur.idle();
            }
        }
    }
    cx.pos = (sections.len(), 0);
    cx.checkpoint(true);
    0
}

/// cap the address space of a case-running process so that a runaway allocation in the code under
/// test ends this process (a crash incident) instead of exhausting the machine
pub fn limit_memory() {
    // tools under test drop files such as main.sym into the working directory: keep them out of /verif
    let root = std::env::var("VERIF_ROOT").unwrap_or_else(|_| "/verif".to_string());
    let cwd = Path::new(&root).join("harness/target/runs/cwd");
    if std::fs::create_dir_all(&cwd).is_ok() {
        let _ = std::env::set_current_dir(&cwd);
    }
    let gib: u64 = std::env::var("VERIF_MEM_GIB").ok().and_then(|s| s.parse().ok()).unwrap_or(6);
    let lim = libc::rlimit { rlim_cur: gib << 30, rlim_max: gib << 30 };
    unsafe {
        libc::setrlimit(libc::RLIMIT_AS, &lim);
    }
}

/// a property may mark which part of a case is running (0 = unmarked); the orchestrator reads the
/// mark of a case that was killed by the watchdog
pub fn set_phase(p: u32) {
    let ptr = HEARTBEAT_PTR.load(std::sync::atomic::Ordering::Relaxed);
    if !ptr.is_null() {
        unsafe {
            std::ptr::write_volatile(ptr.add(36) as *mut u32, p);
        }
    }
    if let Ok(f) = std::env::var("VERIF_PHASE_FILE") {
        let _ = std::fs::write(f, p.to_string());
    }
}
