mod choices;
mod core;
mod gen_clvm;
mod gen_value;
mod known;
mod orch;
mod props;
mod replay;
mod sut;
mod worker;

use crate::core::*;
use serde_json::json;
use std::path::PathBuf;

fn arg_after(args: &[String], name: &str) -> Option<String> {
    args.iter().position(|a| a == name).and_then(|i| args.get(i + 1).cloned())
}

fn usage() -> ! {
    eprintln!("usage: vcheck run <ID> [--tier quick|thorough] | replay <FILE> | worker ... | one ... | list");
    std::process::exit(2)
}

fn main() {
    let args: Vec<String> = std::env::args().collect();
    if args.len() < 2 {
        usage();
    }
    let root = PathBuf::from(arg_after(&args, "--root").unwrap_or_else(|| {
        std::env::var("VERIF_ROOT").unwrap_or_else(|_| "/verif".to_string())
    }));
    let seed: u64 = arg_after(&args, "--seed")
        .or_else(|| std::env::var("VERIF_SEED").ok())
        .and_then(|s| s.trim().parse::<u64>().ok())
        .unwrap_or(0);
    let tier = Tier::parse(
        &arg_after(&args, "--tier")
            .or_else(|| std::env::var("VERIF_TIER").ok())
            .unwrap_or_else(|| "quick".to_string()),
    );
    crate::core::SEED.store(seed, std::sync::atomic::Ordering::Relaxed);
    match args[1].as_str() {
        "list" => {
            for p in props::all() {
                println!("{}", p.id());
            }
        }
        "run" => {
            let id = args.get(2).unwrap_or_else(|| usage());
            let Some(prop) = props::lookup(id) else {
                eprintln!("unknown property {id}");
                std::process::exit(2)
            };
            std::process::exit(orch::run_property(prop, tier, seed, &root));
        }
        "worker" => {
            let id = args.get(2).unwrap_or_else(|| usage());
            let prop = props::lookup(id).expect("property");
            let resume = arg_after(&args, "--resume").and_then(|s| {
                let mut it = s.split(':');
                Some((it.next()?.parse().ok()?, it.next()?.parse().ok()?))
            });
            let wa = worker::WorkerArgs {
                tier,
                seed,
                shard: arg_after(&args, "--shard").and_then(|s| s.parse().ok()).unwrap_or(0),
                nshards: arg_after(&args, "--nshards").and_then(|s| s.parse().ok()).unwrap_or(1),
                dir: PathBuf::from(arg_after(&args, "--dir").expect("--dir")),
                root,
                resume,
                segment: arg_after(&args, "--segment").and_then(|s| s.parse().ok()).unwrap_or(0),
            };
            std::process::exit(worker::worker_main(prop, wa));
        }
        "one" | "replay" => {
            // run a single case in this process (big stack), print the verdict
            let is_replay = args[1] == "replay";
            let (prop, file) = if is_replay {
                let f = args.get(2).unwrap_or_else(|| usage());
                let t = std::fs::read_to_string(f).expect("replay file");
                let v: serde_json::Value = serde_json::from_str(&t).expect("replay json");
                let id = v["property"].as_str().expect("property in replay").to_string();
                (props::lookup(&id).expect("property"), Some(v))
            } else {
                (props::lookup(args.get(2).unwrap_or_else(|| usage())).expect("property"), None)
            };
            let sec = arg_after(&args, "--sec").unwrap_or_default();
            let hexs = arg_after(&args, "--hex").or_else(|| {
                arg_after(&args, "--hexfile").and_then(|p| std::fs::read_to_string(p).ok())
            });
            let index = arg_after(&args, "--index").and_then(|s| s.parse::<u64>().ok());
            let out = arg_after(&args, "--out");
            worker::install_panic_hook();
            let h = std::thread::Builder::new()
                .stack_size(1 << 30)
                .spawn(move || {
                    let mut st = Stats::default();
                    st.want_sample = true;
                    let verdict = if let Some(f) = &file {
                        replay::run_replay(prop, f, tier, &mut st)
                    } else if let Some(h) = hexs {
                        let b = hex::decode(h.trim()).expect("hex");
                        worker::run_one(prop, &sec, &Input::Bytes(&b), tier, &mut st)
                    } else if let Some(i) = index {
                        worker::run_one(prop, &sec, &Input::Index(i), tier, &mut st)
                    } else {
                        usage()
                    };
                    let (j, code) = match &verdict {
                        Verdict::Pass => (json!({"verdict": "pass", "sample": st.samples, "labels": st.labels}), 0),
                        Verdict::Skip(r) => (json!({"verdict": "skip", "reason": r, "sample": st.samples}), 0),
                        Verdict::Violation(v) => (
                            json!({"verdict": "violation", "known": prop.known(v),
                                "violation": {"property": prop.id(), "section": sec, "signature": v.sig,
                                              "expected": v.expected, "observed": v.observed, "case": v.case}}),
                            1,
                        ),
                    };
                    (j, code)
                })
                .unwrap();
            let (j, code) = h.join().unwrap_or((json!({"verdict": "thread died"}), 3));
            if let Some(o) = out {
                let _ = std::fs::write(o, serde_json::to_string(&j).unwrap());
            } else {
                println!("{}", serde_json::to_string_pretty(&j).unwrap());
            }
            if is_replay && code == 1 {
                let kn = known::Known::load(&root);
                let kid = j["known"].as_str().unwrap_or("");
                if !kid.is_empty() && kn.active(prop.id(), kid) {
                    println!("KNOWN-FINDING: property={} {} [{}]", prop.id(), kn.what(prop.id(), kid), kid);
                    std::process::exit(0);
                }
                println!("VIOLATION property={} replay={}", prop.id(), args[2]);
            }
            std::process::exit(code);
        }
        _ => usage(),
    }
}
