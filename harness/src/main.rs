use vcheck::core::*;
use vcheck::{gen_lisp, gen_value, known, orch, props, reduce, replay, sut, worker};
use serde_json::json;
use std::path::PathBuf;

fn arg_after(args: &[String], name: &str) -> Option<String> {
    args.iter().position(|a| a == name).and_then(|i| args.get(i + 1).cloned())
}

fn usage() -> ! {
    eprintln!("usage: vcheck run <ID> [--tier quick|thorough] | replay <FILE> | worker ... | one ... | list");
    std::process::exit(2)
}

fn main() {
    let args: Vec<String> = std::env::args().collect();
    if args.len() < 2 {
        usage();
    }
    if args[1].starts_with("helper-") {
        // a helper whose parent is gone (a worker killed by the watchdog) has nobody waiting for
        // it: leave instead of burning a core on a compile that may never end
        let parent = unsafe { libc::getppid() };
        std::thread::spawn(move || loop {
            std::thread::sleep(std::time::Duration::from_millis(500));
            if unsafe { libc::getppid() } != parent {
                std::process::exit(3);
            }
        });
    }
    let root = PathBuf::from(arg_after(&args, "--root").unwrap_or_else(|| {
        std::env::var("VERIF_ROOT").unwrap_or_else(|_| "/verif".to_string())
    }));
    let seed: u64 = arg_after(&args, "--seed")
        .or_else(|| std::env::var("VERIF_SEED").ok())
        .and_then(|s| s.trim().parse::<u64>().ok())
        .unwrap_or(0);
    let tier = Tier::parse(
        &arg_after(&args, "--tier")
            .or_else(|| std::env::var("VERIF_TIER").ok())
            .unwrap_or_else(|| "quick".to_string()),
    );
    vcheck::core::SEED.store(seed, std::sync::atomic::Ordering::Relaxed);
    match args[1].as_str() {
        "helper-run-text" => {
            // vcheck helper-run-text ARGS...: the raw text `run ARGS...` prints
            let mut st = chialisp::classic::clvm::__type_compatibility__::Stream::new(None);
            let mut a: Vec<String> = vec!["run".into()];
            a.extend(args[2..].iter().cloned());
            chialisp::classic::clvm_tools::cmds::launch_tool(&mut st, &a, "run", 2);
            let val = st.get_value();
            println!("{}", String::from_utf8_lossy(&val.data()[..st.get_length()]));
        }
        "comview" => {
            // vcheck comview "<expression>": the expression as the evaluator's com sees it (C16)
            println!("{}", props::c16::com_view(args.get(2).unwrap_or_else(|| usage())).unwrap_or_else(|| "(unchanged)".into()));
        }
        "try" => {
            // vcheck try "<source>" "<args in classic syntax>" [--opt]
            let src = args.get(2).unwrap_or_else(|| usage());
            let argtxt = args.get(3).cloned().unwrap_or_else(|| "()".to_string());
            let opt = args.iter().any(|a| a == "--opt");
            // --counter N : start the fresh-name counter at N
            if let Some(n) = arg_after(&args, "--counter").and_then(|v| v.parse::<usize>().ok()) {
                chialisp::compiler::gensym::ARGNAME_CTR.store(n, std::sync::atomic::Ordering::SeqCst);
            }
            if args.iter().any(|a| a == "--symbols") {
                match sut::compile_lib_sym(src, opt, &[], "*verif*.clsp") {
                    Ok((_, syms)) => {
                        let mut ks: Vec<_> = syms.iter().filter(|(k, _)| !k.contains("_$_")).collect();
                        ks.sort();
                        for (k, v) in ks {
                            if v.len() < 80 && (k.len() != 64 || syms.contains_key(&format!("{k}_arguments"))) {
                                println!("SYM {k} = {v}");
                            }
                        }
                    }
                    Err(e) => println!("SYM ERROR {e}"),
                }
            }
            // --ambient 0|1 : hold the per-thread integer-conversion mode at that value around the compile
            let _ambient = arg_after(&args, "--ambient").map(|v| chialisp::compiler::clvm::NewStyleIntConversion::new(v == "1"));
            // --modern SIGIL OPT FE POST : compile_file with an explicit option set
            let compiled = if let Some(sigil) = arg_after(&args, "--modern") {
                let bits = arg_after(&args, "--bits").unwrap_or_else(|| "000".into());
                let b: Vec<bool> = bits.chars().map(|c| c == '1').collect();
                sut::compile_modern(src, &sigil, sut::ModernOpts { optimize: b[0], frontend_opt: b[1], post_opt: b[2] }, "*verif*.clsp", &[]).map(|c| c.code).map_err(|e| format!("{}: {}", e.0, e.1))
            } else {
                sut::compile_lib(src, opt, &[])
            };
            match compiled {
                Err(e) => println!("COMPILE ERROR: {e}"),
                Ok(code) => {
                    let mut a = clvmr::Allocator::new();
                    let n = code.to_node(&mut a);
                    println!("CODE: {}", chialisp::classic::clvm_tools::binutils::disassemble(&a, n, Some(2)));
                    let env = chialisp::classic::clvm_tools::binutils::assemble(&mut a, &argtxt).expect("args");
                    let envv = gen_value::V::from_node(&a, env);
                    match sut::run_consensus(&code, &envv, 11_000_000_000) {
                        Ok(v) => {
                            let n = v.to_node(&mut a);
                            println!("RESULT: {}", chialisp::classic::clvm_tools::binutils::disassemble(&a, n, Some(2)));
                        }
                        Err(e) => println!("RUN ERROR: {e}"),
                    }
                }
            }
        }
        "reduce-hang" => {
            // vcheck reduce-hang C01 --hexfile F --dialect cl23 : AST-level reduction of a generated
            // program whose compilation under --dialect does not finish (subprocess + timeout)
            let hexs = arg_after(&args, "--hexfile").and_then(|p| std::fs::read_to_string(p).ok()).expect("--hexfile");
            let b = hex::decode(hexs.trim()).expect("hex");
            let d = gen_lisp::Dialect::parse(&arg_after(&args, "--dialect").unwrap_or_else(|| "cl23".into())).expect("dialect");
            let no_ok = arg_after(&args, "--ok-dialect").map(|s| s == "none").unwrap_or(false);
            let okd = if no_ok { gen_lisp::Dialect::Cl21 } else { gen_lisp::Dialect::parse(&arg_after(&args, "--ok-dialect").unwrap_or_else(|| "cl21".into())).expect("ok dialect") };
            let is_c10 = args.get(2).map(|x| x == "C10").unwrap_or(false);
            let start_prog = if is_c10 { props::c10::decode_bad(&b, tier).expect("no defect") } else { props::c01::decode_case(&b, tier, None).prog };
            let exe = std::env::current_exe().unwrap();
            let run = |text: &str, limit: u64| -> (Option<i32>, bool, String) {
                use std::process::{Command, Stdio};
                let mut child = Command::new("bash")
                    .arg("-c")
                    .arg(format!("ulimit -s 8192; exec timeout {limit} {} try \"$SRC\" '()'", exe.display()))
                    .env("SRC", text)
                    .stdout(Stdio::piped())
                    .stderr(Stdio::null())
                    .spawn()
                    .unwrap();
                let mut out = String::new();
                use std::io::Read;
                child.stdout.take().unwrap().read_to_string(&mut out).ok();
                let st = child.wait().unwrap();
                (st.code(), st.code().is_none(), out)
            };
            let mut still = |p: &gen_lisp::Program| -> bool {
                if !is_c10 && !no_ok {
                    let ok21 = run(&gen_lisp::render_program(p, Some(okd)), 40);
                    if !ok21.2.contains("CODE:") {
                        return false;
                    }
                }
                let r = run(&gen_lisp::render_program(p, Some(d)), 15);
                let hang = r.0 == Some(124) || r.0 == Some(134) || r.1;
                eprintln!("candidate size {} hang={hang}", gen_lisp::render_program(p, None).len());
                hang
            };
            assert!(still(&start_prog), "original does not hang");
            let red = reduce::reduce_program(&start_prog, &mut still, 2000);
            println!("{}", gen_lisp::render_program(&red, Some(d)));
        }
        "helper-gentle" => {
            let out = PathBuf::from(args.get(2).expect("out"));
            let data = PathBuf::from(args.get(3).expect("data"));
            std::process::exit(props::c19::helper_gentle(&out, &data, args.iter().any(|a| a == "--drop-privileges")));
        }
        "helper-unused" => {
            // stdin: a source text; stdout: the names the unused-argument check reports, one per line
            worker::limit_memory();
            let mut src = String::new();
            use std::io::Read;
            std::io::stdin().read_to_string(&mut src).ok();
            let h = std::thread::Builder::new().stack_size(512 << 20).spawn(move || match props::c17::unused_report(&src) {
                Ok(names) => {
                    println!("OK");
                    for n in names {
                        println!("{n}");
                    }
                    0
                }
                Err(e) => {
                    println!("ERR {e}");
                    1
                }
            });
            std::process::exit(h.unwrap().join().unwrap_or(3));
        }
        "helper-compile-text" => {
            let search: Vec<String> = args.iter().skip(3).cloned().collect();
            std::process::exit(props::c05::helper_compile_text(args.get(2).map(|s| s.as_str()).unwrap_or("cl23"), &search));
        }
        "helper-compile" => {
            let src = PathBuf::from(args.get(2).expect("src"));
            let out = PathBuf::from(args.get(3).expect("out"));
            let n: usize = args.get(4).and_then(|s| s.parse().ok()).unwrap_or(1);
            std::process::exit(props::c19::helper_compile(&src, &out, n));
        }
        "show" => {
            let prop = props::lookup(args.get(2).unwrap_or_else(|| usage())).expect("property");
            let sec = arg_after(&args, "--sec").unwrap_or_default();
            let hexs = arg_after(&args, "--hex").or_else(|| arg_after(&args, "--hexfile").and_then(|p| std::fs::read_to_string(p).ok())).unwrap_or_default();
            let b = hex::decode(hexs.trim()).expect("hex");
            match prop.describe(&sec, &Input::Bytes(&b), tier) {
                Some(v) => {
                    if let Some(src) = v.get("source").and_then(|s| s.as_str()) {
                        println!("{src}");
                    }
                    println!("{}", serde_json::to_string_pretty(&v).unwrap());
                }
                None => println!("no description"),
            }
        }
        "list" => {
            for p in props::all() {
                println!("{}", p.id());
            }
        }
        "run" => {
            let id = args.get(2).unwrap_or_else(|| usage());
            let Some(prop) = props::lookup(id) else {
                eprintln!("unknown property {id}");
                std::process::exit(2)
            };
            std::process::exit(orch::run_property(prop, tier, seed, &root));
        }
        "worker" => {
            worker::limit_memory();
            let id = args.get(2).unwrap_or_else(|| usage());
            let prop = props::lookup(id).expect("property");
            let resume = arg_after(&args, "--resume").and_then(|s| {
                let mut it = s.split(':');
                Some((it.next()?.parse().ok()?, it.next()?.parse().ok()?))
            });
            let wa = worker::WorkerArgs {
                tier,
                seed,
                shard: arg_after(&args, "--shard").and_then(|s| s.parse().ok()).unwrap_or(0),
                nshards: arg_after(&args, "--nshards").and_then(|s| s.parse().ok()).unwrap_or(1),
                dir: PathBuf::from(arg_after(&args, "--dir").expect("--dir")),
                root,
                resume,
                segment: arg_after(&args, "--segment").and_then(|s| s.parse().ok()).unwrap_or(0),
            };
            std::process::exit(worker::worker_main(prop, wa));
        }
        "one" | "replay" => {
            // file arguments may be relative to the caller's directory: resolve before leaving it
            let args: Vec<String> = args
                .iter()
                .enumerate()
                .map(|(i, a)| {
                    if i >= 2 && !a.starts_with("--") && std::path::Path::new(a).is_file() {
                        std::fs::canonicalize(a).map(|p| p.to_string_lossy().to_string()).unwrap_or_else(|_| a.clone())
                    } else {
                        a.clone()
                    }
                })
                .collect();
            worker::limit_memory();
            // run a single case in this process (big stack), print the verdict
            let is_replay = args[1] == "replay";
            let (prop, file) = if is_replay {
                let f = args.get(2).unwrap_or_else(|| usage());
                let t = std::fs::read_to_string(f).expect("replay file");
                let v: serde_json::Value = serde_json::from_str(&t).expect("replay json");
                let id = v["property"].as_str().expect("property in replay").to_string();
                (props::lookup(&id).expect("property"), Some(v))
            } else {
                (props::lookup(args.get(2).unwrap_or_else(|| usage())).expect("property"), None)
            };
            let sec = arg_after(&args, "--sec").unwrap_or_default();
            let hexs = arg_after(&args, "--hex").or_else(|| {
                arg_after(&args, "--hexfile").and_then(|p| std::fs::read_to_string(p).ok())
            });
            let index = arg_after(&args, "--index").and_then(|s| s.parse::<u64>().ok());
            let out = arg_after(&args, "--out");
            worker::install_panic_hook();
            let h = std::thread::Builder::new()
                .stack_size(1 << 30)
                .spawn(move || {
                    let mut st = Stats::default();
                    st.want_sample = true;
                    let verdict = if let Some(f) = &file {
                        replay::run_replay(prop, f, tier, &mut st)
                    } else if let Some(h) = hexs {
                        let b = hex::decode(h.trim()).expect("hex");
                        worker::run_one(prop, &sec, &Input::Bytes(&b), tier, &mut st)
                    } else if let Some(i) = index {
                        worker::run_one(prop, &sec, &Input::Index(i), tier, &mut st)
                    } else {
                        usage()
                    };
                    let (j, code) = match &verdict {
                        Verdict::Pass => (json!({"verdict": "pass", "sample": st.samples, "labels": st.labels}), 0),
                        Verdict::Skip(r) => (json!({"verdict": "skip", "reason": r, "sample": st.samples}), 0),
                        Verdict::Violation(v) => (
                            json!({"verdict": "violation", "known": prop.known(v),
                                "violation": {"property": prop.id(), "section": sec, "signature": v.sig,
                                              "expected": v.expected, "observed": v.observed, "case": v.case}}),
                            1,
                        ),
                    };
                    (j, code)
                })
                .unwrap();
            let (j, code) = h.join().unwrap_or((json!({"verdict": "thread died"}), 3));
            if let Some(o) = out {
                let _ = std::fs::write(o, serde_json::to_string(&j).unwrap());
            } else {
                println!("{}", serde_json::to_string_pretty(&j).unwrap());
            }
            if is_replay && code == 1 {
                let kn = known::Known::load(&root);
                let kid = j["known"].as_str().unwrap_or("");
                if !kid.is_empty() && kn.active(prop.id(), kid) {
                    println!("KNOWN-FINDING: property={} {} [{}]", prop.id(), kn.what(prop.id(), kid), kid);
                    std::process::exit(0);
                }
                println!("VIOLATION property={} replay={}", prop.id(), args[2]);
            }
            std::process::exit(code);
        }
        _ => usage(),
    }
}
