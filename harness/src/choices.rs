//! Choice-sequence decoder (DESIGN §2.1).  Every generator is a pure function of a byte
//! string: proptest owns the bytes (generation + shrinking), libFuzzer can own them too.
//! Exhausted input yields 0, and every mapping is monotone, so "shorter / smaller bytes"
//! always means "structurally simpler case".

pub struct Choices<'a> {
    data: &'a [u8],
    pos: usize,
}

impl<'a> Choices<'a> {
    pub fn new(data: &'a [u8]) -> Self {
        Choices { data, pos: 0 }
    }
    pub fn exhausted(&self) -> bool {
        self.pos >= self.data.len()
    }
    pub fn consumed(&self) -> usize {
        self.pos
    }
    pub fn u8(&mut self) -> u8 {
        if self.pos < self.data.len() {
            let b = self.data[self.pos];
            self.pos += 1;
            b
        } else {
            0
        }
    }
    pub fn u16(&mut self) -> u16 {
        let a = self.u8() as u16;
        let b = self.u8() as u16;
        (a << 8) | b
    }
    pub fn u32(&mut self) -> u32 {
        let a = self.u16() as u32;
        let b = self.u16() as u32;
        (a << 16) | b
    }
    pub fn u64(&mut self) -> u64 {
        let a = self.u32() as u64;
        let b = self.u32() as u64;
        (a << 32) | b
    }
    /// index in 0..n (n >= 1), monotone in the consumed byte(s)
    pub fn pick(&mut self, n: usize) -> usize {
        if n <= 1 {
            return 0;
        }
        if n <= 256 {
            ((self.u8() as usize) * n) >> 8
        } else if n <= 65536 {
            ((self.u16() as usize) * n) >> 16
        } else {
            (((self.u32() as u64) * (n as u64)) >> 32) as usize
        }
    }
    /// inclusive range
    pub fn range(&mut self, lo: usize, hi: usize) -> usize {
        if hi <= lo {
            return lo;
        }
        lo + self.pick(hi - lo + 1)
    }
    /// true with probability num/256; false on exhausted input
    pub fn chance(&mut self, num: u32) -> bool {
        // high bytes mean true so that zero (shrunk) means false
        (self.u8() as u32) >= 256 - num.min(256)
    }
    /// weighted index; put the simplest alternative first
    pub fn weighted(&mut self, weights: &[u32]) -> usize {
        let total: u64 = weights.iter().map(|w| *w as u64).sum();
        if total == 0 {
            return 0;
        }
        let v = ((self.u16() as u64) * total) >> 16;
        let mut acc = 0u64;
        for (i, w) in weights.iter().enumerate() {
            acc += *w as u64;
            if v < acc {
                return i;
            }
        }
        weights.len() - 1
    }
    pub fn bytes(&mut self, n: usize) -> Vec<u8> {
        (0..n).map(|_| self.u8()).collect()
    }
    pub fn choose<'b, T>(&mut self, xs: &'b [T]) -> &'b T {
        &xs[self.pick(xs.len())]
    }
}

pub fn splitmix(mut x: u64) -> u64 {
    x = x.wrapping_add(0x9e3779b97f4a7c15);
    let mut z = x;
    z = (z ^ (z >> 30)).wrapping_mul(0xbf58476d1ce4e5b9);
    z = (z ^ (z >> 27)).wrapping_mul(0x94d049bb133111eb);
    z ^ (z >> 31)
}

pub fn mix(parts: &[u64]) -> u64 {
    let mut h = 0x243f6a8885a308d3u64;
    for p in parts {
        h = splitmix(h ^ *p);
    }
    h
}

pub fn fnv(data: &[u8]) -> u64 {
    let mut h = 0xcbf29ce484222325u64;
    for b in data {
        h ^= *b as u64;
        h = h.wrapping_mul(0x100000001b3);
    }
    splitmix(h)
}
