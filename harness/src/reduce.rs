//! Structural (AST-level) reducer for generated Chialisp programs, run after proptest's own
//! shrink of the choice bytes: drop helpers, replace a sub-expression by a literal or by one of
//! its children, simplify bindings.  Candidates are untyped; an ill-typed candidate simply does
//! not reproduce the failure and is discarded by the predicate.

use crate::gen_lisp::*;
use num_bigint::BigInt;

fn children(e: &Expr) -> Vec<Expr> {
    match e {
        Expr::If(a, b, c) => vec![(**a).clone(), (**b).clone(), (**c).clone()],
        Expr::Prim(_, args) | Expr::List(args) | Expr::MacroCall { args, .. } => args.clone(),
        Expr::Call { args, rest, .. } => {
            let mut v = args.clone();
            if let Some(r) = rest {
                v.push((**r).clone());
            }
            v
        }
        Expr::Let { binds, body, .. } => {
            let mut v: Vec<Expr> = vec![(**body).clone()];
            v.extend(binds.iter().map(|b| b.1.clone()));
            v
        }
        Expr::Assign { binds, body, .. } => {
            let mut v: Vec<Expr> = vec![(**body).clone()];
            v.extend(binds.iter().map(|b| b.1.clone()));
            v
        }
        Expr::Lambda { body, .. } => vec![(**body).clone()],
        Expr::Apply(a, b) => vec![(**a).clone(), (**b).clone()],
        Expr::QQList(items) => items.iter().filter_map(|i| i.as_ref().err().cloned()).collect(),
        _ => vec![],
    }
}

fn walk_mut(e: &mut Expr, ctr: &mut usize, target: usize, f: &mut dyn FnMut(&mut Expr)) {
    if *ctr == target {
        f(e);
        *ctr += 1;
        return;
    }
    *ctr += 1;
    match e {
        Expr::If(a, b, c) => {
            walk_mut(a, ctr, target, f);
            walk_mut(b, ctr, target, f);
            walk_mut(c, ctr, target, f);
        }
        Expr::Prim(_, args) | Expr::List(args) | Expr::MacroCall { args, .. } => {
            for a in args {
                walk_mut(a, ctr, target, f);
            }
        }
        Expr::Call { args, rest, .. } => {
            for a in args {
                walk_mut(a, ctr, target, f);
            }
            if let Some(r) = rest {
                walk_mut(r, ctr, target, f);
            }
        }
        Expr::Let { binds, body, .. } => {
            for b in binds {
                walk_mut(&mut b.1, ctr, target, f);
            }
            walk_mut(body, ctr, target, f);
        }
        Expr::Assign { binds, body, .. } => {
            for b in binds {
                walk_mut(&mut b.1, ctr, target, f);
            }
            walk_mut(body, ctr, target, f);
        }
        Expr::Lambda { body, .. } => walk_mut(body, ctr, target, f),
        Expr::Apply(a, b) => {
            walk_mut(a, ctr, target, f);
            walk_mut(b, ctr, target, f);
        }
        Expr::QQList(items) => {
            for it in items {
                if let Err(e) = it {
                    walk_mut(e, ctr, target, f);
                }
            }
        }
        Expr::ModExpr(p) => walk_prog(p, ctr, target, f),
        _ => {}
    }
}

fn walk_prog(p: &mut Program, ctr: &mut usize, target: usize, f: &mut dyn FnMut(&mut Expr)) {
    for h in p.helpers.iter_mut() {
        match h {
            Helper::Defun { body, .. } => walk_mut(body, ctr, target, f),
            Helper::Defconst { expr, .. } => walk_mut(expr, ctr, target, f),
            _ => {}
        }
    }
    walk_mut(&mut p.body, ctr, target, f);
}

pub fn count_exprs(p: &Program) -> usize {
    let mut q = p.clone();
    let mut ctr = 0;
    walk_prog(&mut q, &mut ctr, usize::MAX, &mut |_| {});
    ctr
}

fn size(p: &Program) -> usize {
    render_program(p, None).len()
}

/// greedy reduction; `still` returns true when the candidate still fails the same way
pub fn reduce_program(start: &Program, still: &mut dyn FnMut(&Program) -> bool, budget: usize) -> Program {
    let mut best = start.clone();
    let mut calls = 0usize;
    let mut progress = true;
    while progress && calls < budget {
        progress = false;
        // drop helpers
        let mut i = best.helpers.len();
        while i > 0 && calls < budget {
            i -= 1;
            let mut cand = best.clone();
            let removed = cand.helpers.remove(i);
            // a helper that is still mentioned stays: dropping it would make the program
            // ill-scoped, and builds may differ in whether they notice (dead bindings)
            let name = match &removed {
                crate::gen_lisp::Helper::Defun { name, .. } => name.clone(),
                crate::gen_lisp::Helper::Defmacro { name, .. } => name.clone(),
                crate::gen_lisp::Helper::Defconstant { name, .. } => name.clone(),
                crate::gen_lisp::Helper::Defconst { name, .. } => name.clone(),
            };
            let rest = crate::gen_lisp::render_program(&cand, None);
            if crate::gen_text::tokenize(&rest).iter().any(|t| t == &name) {
                continue;
            }
            calls += 1;
            if still(&cand) {
                best = cand;
                progress = true;
            }
        }
        // simplify expressions
        let mut idx = 0;
        while idx < count_exprs(&best) && calls < budget {
            let mut node: Option<Expr> = None;
            {
                let mut q = best.clone();
                let mut ctr = 0;
                walk_prog(&mut q, &mut ctr, idx, &mut |e| node = Some(e.clone()));
            }
            let Some(node) = node else {
                idx += 1;
                continue;
            };
            let mut cands: Vec<Expr> = children(&node);
            cands.push(Expr::Int(BigInt::from(0)));
            cands.push(Expr::Nil);
            cands.push(Expr::Int(BigInt::from(1)));
            // let/assign with fewer bindings
            if let Expr::Let { star, binds, body } = &node {
                for k in 0..binds.len() {
                    let mut b2 = binds.clone();
                    b2.remove(k);
                    if !b2.is_empty() {
                        cands.push(Expr::Let {
                            star: *star,
                            binds: b2,
                            body: body.clone(),
                        });
                    }
                }
            }
            if let Expr::Prim(op, args) = &node {
                if args.len() > 2 {
                    let mut a2 = args.clone();
                    a2.pop();
                    cands.push(Expr::Prim(op, a2));
                }
            }
            let cur_size = size(&best);
            let mut accepted = false;
            for c in cands {
                if calls >= budget {
                    break;
                }
                let mut q = best.clone();
                let mut ctr = 0;
                let cc = c.clone();
                walk_prog(&mut q, &mut ctr, idx, &mut |e| *e = cc.clone());
                if size(&q) >= cur_size {
                    continue;
                }
                calls += 1;
                if still(&q) {
                    best = q;
                    progress = true;
                    accepted = true;
                    break;
                }
            }
            if !accepted {
                idx += 1;
            }
        }
    }
    best
}
