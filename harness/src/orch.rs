//! Orchestrator: shards -> worker processes, watchdog, crash attribution, merge, evidence.

use crate::core::*;
use crate::known::Known;
use crate::worker::{now_ms, read_cur, CurSnapshot};
use serde_json::{json, Map, Value};
use std::collections::{BTreeMap, HashSet};
use std::path::{Path, PathBuf};
use std::process::{Child, Command, Stdio};
use std::time::{Duration, Instant};

struct Shard {
    idx: usize,
    child: Option<Child>,
    segment: usize,
    restarts: usize,
    done: bool,
    gave_up: bool,
    why: String,
}

#[derive(Clone, Debug)]
struct Incident {
    kind: &'static str, // "crash" | "timeout"
    sec: String,
    input_hex: Option<String>,
    index: Option<u64>,
    status: String,
    phase: u32,
}

fn spawn_worker(
    exe: &Path,
    id: &str,
    tier: Tier,
    seed: u64,
    shard: usize,
    nshards: usize,
    dir: &Path,
    root: &Path,
    segment: usize,
    resume: Option<(usize, u64)>,
) -> Child {
    let mut cmd = Command::new(exe);
    cmd.arg("worker")
        .arg(id)
        .arg("--tier")
        .arg(tier.name())
        .arg("--seed")
        .arg(seed.to_string())
        .arg("--shard")
        .arg(shard.to_string())
        .arg("--nshards")
        .arg(nshards.to_string())
        .arg("--dir")
        .arg(dir)
        .arg("--root")
        .arg(root)
        .arg("--segment")
        .arg(segment.to_string());
    if let Some((s, k)) = resume {
        cmd.arg("--resume").arg(format!("{s}:{k}"));
    }
    let log = std::fs::OpenOptions::new()
        .create(true)
        .append(true)
        .open(dir.join(format!("shard-{shard}.log")))
        .expect("log");
    cmd.stdin(Stdio::null())
        .stdout(Stdio::from(log.try_clone().unwrap()))
        .stderr(Stdio::from(log));
    cmd.spawn().expect("spawn worker")
}

/// where a shard's last written checkpoint says to go on (used when a worker went away without a
/// usable in-flight record)
fn last_checkpoint(dir: &Path, shard: usize, upto_segment: usize) -> Option<(usize, u64)> {
    for seg in (0..=upto_segment).rev() {
        let p = dir.join(format!("shard-{shard}.seg{seg}.json"));
        if let Some(v) = std::fs::read_to_string(&p).ok().and_then(|t| serde_json::from_str::<Value>(&t).ok()) {
            if let Some(n) = v.get("next").and_then(|n| n.as_array()) {
                if n.len() == 2 {
                    return Some((n[0].as_u64()? as usize, n[1].as_u64()?));
                }
            }
        }
    }
    None
}

fn section_names(prop: &dyn Prop, tier: Tier) -> Vec<String> {
    let mut v = vec!["replays".to_string()];
    v.extend(prop.sections(tier).iter().map(|s| s.name.to_string()));
    v
}

fn incident_from(cur: &CurSnapshot, names: &[String], kind: &'static str, status: String) -> Incident {
    Incident {
        kind,
        sec: names.get(cur.sec as usize).cloned().unwrap_or_default(),
        input_hex: if cur.kind == 2 { Some(hex(&cur.data)) } else { None },
        index: if cur.kind == 1 { Some(cur.idx) } else { None },
        status,
        phase: cur.phase,
    }
}

/// run one case alone in a fresh process; returns (exit description, timed out?)
fn run_alone(exe: &Path, id: &str, tier: Tier, root: &Path, inc: &Incident, limit_s: u64) -> (String, bool, Option<Value>) {
    let out = root.join("harness/target/runs").join(format!("one-{}-{}.json", id, std::process::id()));
    let _ = std::fs::remove_file(&out);
    let mut cmd = Command::new(exe);
    cmd.arg("one").arg(id).arg("--tier").arg(tier.name()).arg("--sec").arg(&inc.sec).arg("--root").arg(root).arg("--out").arg(&out);
    if let Some(h) = &inc.input_hex {
        // long inputs go through a file
        let p = root.join("harness/target/runs").join(format!("one-{}-{}.hex", id, std::process::id()));
        let _ = std::fs::write(&p, h);
        cmd.arg("--hexfile").arg(&p);
    }
    if let Some(i) = inc.index {
        cmd.arg("--index").arg(i.to_string());
    }
    let phase_file = root.join("harness/target/runs").join(format!("one-{}-{}.phase", id, std::process::id()));
    let _ = std::fs::remove_file(&phase_file);
    cmd.env("VERIF_PHASE_FILE", &phase_file);
    cmd.stdin(Stdio::null()).stdout(Stdio::null()).stderr(Stdio::null());
    let mut child = match cmd.spawn() {
        Ok(c) => c,
        Err(e) => return (format!("spawn failed {e}"), false, None),
    };
    let start = Instant::now();
    loop {
        match child.try_wait() {
            Ok(Some(st)) => {
                let v = std::fs::read_to_string(&out).ok().and_then(|t| serde_json::from_str(&t).ok());
                return (format!("{st}"), false, v);
            }
            Ok(None) => {
                if start.elapsed().as_secs() > limit_s {
                    let _ = child.kill();
                    let _ = child.wait();
                    return ("timeout".to_string(), true, None);
                }
                std::thread::sleep(Duration::from_millis(50));
            }
            Err(e) => return (format!("wait failed {e}"), false, None),
        }
    }
}

pub fn run_property(prop: &'static dyn Prop, tier: Tier, seed: u64, root: &Path) -> i32 {
    let t0 = Instant::now();
    let exe = std::env::current_exe().expect("current_exe");
    let id = prop.id();
    let nproc = std::thread::available_parallelism().map(|n| n.get()).unwrap_or(4);
    let nshards = prop.shards(tier).unwrap_or(nproc.min(16)).max(1);
    let dir: PathBuf = root.join("harness/target/runs").join(format!("{}-{}", id, std::process::id()));
    let _ = std::fs::remove_dir_all(&dir);
    std::fs::create_dir_all(&dir).expect("run dir");
    let names = section_names(prop, tier);
    let (timeout_s, timeout_is_violation) = prop.case_timeout();

    let mut shards: Vec<Shard> = (0..nshards)
        .map(|i| Shard {
            idx: i,
            child: Some(spawn_worker(&exe, id, tier, seed, i, nshards, &dir, root, 0, None)),
            segment: 0,
            restarts: 0,
            done: false,
            gave_up: false,
            why: String::new(),
        })
        .collect();
    let mut incidents: Vec<Incident> = vec![];

    loop {
        let mut active = 0;
        for sh in shards.iter_mut() {
            if sh.done || sh.gave_up {
                continue;
            }
            active += 1;
            let curp = dir.join(format!("shard-{}.cur", sh.idx));
            let mut restart_from: Option<(usize, u64)> = None;
            let child = sh.child.as_mut().unwrap();
            match child.try_wait() {
                Ok(Some(status)) => {
                    let segj = dir.join(format!("shard-{}.seg{}.json", sh.idx, sh.segment));
                    let done = std::fs::read_to_string(&segj)
                        .ok()
                        .and_then(|t| serde_json::from_str::<Value>(&t).ok())
                        .and_then(|v| v.get("done").and_then(|d| d.as_bool()))
                        .unwrap_or(false);
                    if status.success() && done {
                        sh.done = true;
                        continue;
                    }
                    // crashed
                    if let Some(cur) = read_cur(&curp) {
                        if cur.kind != 0 {
                            incidents.push(incident_from(&cur, &names, "crash", format!("{status}")));
                            restart_from = Some((cur.sec as usize, cur.k + 1));
                        } else {
                            incidents.push(Incident {
                                kind: "crash",
                                sec: "?".into(),
                                input_hex: None,
                                index: None,
                                status: format!("{status} (between cases)"),
                                phase: 0,
                            });
                            sh.why = "worker ended between cases without finishing".to_string();
                    sh.gave_up = true;
                            continue;
                        }
                    } else if let Some(cp) = last_checkpoint(&dir, sh.idx, sh.segment) {
                        // no usable in-flight record: go on from the shard's last checkpoint
                        restart_from = Some(cp);
                    } else {
                        sh.why = "no in-flight record and no checkpoint after a crash".to_string();
                        sh.gave_up = true;
                        incidents.push(Incident {
                            kind: "crash",
                            sec: "?".into(),
                            input_hex: None,
                            index: None,
                            status: format!("{status} (no cur record)"),
                            phase: 0,
                        });
                        continue;
                    }
                }
                Ok(None) => {
                    // watchdog: header only
                    if let Ok(mut f) = std::fs::File::open(&curp) {
                        use std::io::Read;
                        let mut hdr = [0u8; 40];
                        if f.read_exact(&mut hdr).is_ok() {
                            let kind = u32::from_ne_bytes(hdr[4..8].try_into().unwrap());
                            let ms = u64::from_ne_bytes(hdr[24..32].try_into().unwrap());
                            let phase = u32::from_ne_bytes(hdr[36..40].try_into().unwrap());
                            let limit_s = match (prop.timeout_exempt_phase(), prop.exempt_phase_timeout()) {
                                (Some(p), Some(t)) if p == phase => t.min(timeout_s),
                                _ => timeout_s,
                            };
                            if kind != 0 && now_ms().saturating_sub(ms) > limit_s * 1000 {
                                let _ = child.kill();
                                let _ = child.wait();
                                if let Some(cur) = read_cur(&curp) {
                                    incidents.push(incident_from(&cur, &names, "timeout", format!(">{limit_s}s")));
                                    restart_from = Some((cur.sec as usize, cur.k + 1));
                                } else if let Some(cp) = last_checkpoint(&dir, sh.idx, sh.segment) {
                                    restart_from = Some(cp);
                                } else {
                                    sh.why = "no in-flight record and no checkpoint after a watchdog kill".to_string();
                                    sh.gave_up = true;
                                    continue;
                                }
                            }
                        }
                    }
                }
                Err(_) => {
                    if let Some(cp) = last_checkpoint(&dir, sh.idx, sh.segment) {
                        restart_from = Some(cp);
                    } else {
                        sh.why = "cannot wait for the worker and no checkpoint".to_string();
                        sh.gave_up = true;
                        continue;
                    }
                }
            }
            if let Some(rf) = restart_from {
                sh.restarts += 1;
                if sh.restarts > 400 {
                    sh.why = "more than 400 restarts".to_string();
                    sh.gave_up = true;
                    continue;
                }
                sh.segment += 1;
                sh.child = Some(spawn_worker(&exe, id, tier, seed, sh.idx, nshards, &dir, root, sh.segment, Some(rf)));
            }
        }
        if active == 0 {
            break;
        }
        std::thread::sleep(Duration::from_millis(100));
    }

    // ---- merge
    let mut evaluations = 0u64;
    let mut passes = 0u64;
    let mut labels: BTreeMap<String, u64> = BTreeMap::new();
    let mut skipped: BTreeMap<String, u64> = BTreeMap::new();
    let mut reject_msgs: BTreeMap<String, u64> = BTreeMap::new();
    let mut rejects = 0u64;
    let mut excluded = 0u64;
    let mut nontrivial_enum = 0u64;
    let mut keys: HashSet<u64> = HashSet::new();
    let mut samples: Vec<Value> = vec![];
    let mut viols: BTreeMap<String, (u64, Value)> = BTreeMap::new();
    let mut known_hits: BTreeMap<String, (u64, Value)> = BTreeMap::new();
    let mut infra: Vec<String> = vec![];
    for sh in shards.iter() {
        if sh.gave_up {
            infra.push(format!("shard {} gave up after {} restarts ({})", sh.idx, sh.restarts, sh.why));
        }
        for seg in 0..=sh.segment {
            let base = dir.join(format!("shard-{}.seg{}", sh.idx, seg));
            let jp = base.with_extension(format!("seg{seg}.json"));
            let jp = if jp.exists() { jp } else { dir.join(format!("shard-{}.seg{}.json", sh.idx, seg)) };
            let Some(v) = std::fs::read_to_string(&jp).ok().and_then(|t| serde_json::from_str::<Value>(&t).ok()) else {
                continue;
            };
            evaluations += v["evaluations"].as_u64().unwrap_or(0);
            passes += v["passes"].as_u64().unwrap_or(0);
            rejects += v["generator_rejects"].as_u64().unwrap_or(0);
            excluded += v["excluded_by_construction"].as_u64().unwrap_or(0);
            nontrivial_enum += v["nontrivial_enum"].as_u64().unwrap_or(0);
            for (field, target) in [("labels", &mut labels), ("skipped", &mut skipped), ("reject_msgs", &mut reject_msgs)] {
                if let Some(m) = v[field].as_object() {
                    for (k, n) in m {
                        *target.entry(k.clone()).or_insert(0) += n.as_u64().unwrap_or(0);
                    }
                }
            }
            if let Some(a) = v["samples"].as_array() {
                for s in a {
                    samples.push(s.clone());
                }
            }
            for (field, target) in [("violations", &mut viols), ("known_hits", &mut known_hits)] {
                if let Some(a) = v[field].as_array() {
                    for e in a {
                        let key = e.get("sig").or_else(|| e.get("id")).and_then(|s| s.as_str()).unwrap_or("?").to_string();
                        let n = e["count"].as_u64().unwrap_or(1);
                        let ent = target.entry(key).or_insert((0, e["example"].clone()));
                        ent.0 += n;
                        // prefer the smallest example
                        let old = ent.1.to_string().len();
                        let new = e["example"].to_string().len();
                        if new < old {
                            ent.1 = e["example"].clone();
                        }
                    }
                }
            }
            let kp = dir.join(format!("shard-{}.seg{}.keys", sh.idx, seg));
            if let Ok(raw) = std::fs::read(&kp) {
                for c in raw.chunks_exact(8) {
                    keys.insert(u64::from_le_bytes(c.try_into().unwrap()));
                }
            }
        }
    }

    // ---- incidents: confirm alone
    let known = Known::load(root);
    let mut crash_notes: Vec<Value> = vec![];
    let mut unconfirmed = 0u64;
    let mut over_budget = 0u64;
    let mut sut_crashes = 0u64;
    let mut reruns = 0usize;
    // dedupe incidents by input
    let mut seen_inc: HashSet<String> = HashSet::new();
    for inc in incidents.iter() {
        let key = format!("{}|{:?}|{:?}", inc.sec, inc.input_hex, inc.index);
        if !seen_inc.insert(key) {
            continue;
        }
        evaluations += 1;
        if inc.sec == "?" {
            infra.push(format!("worker {} outside a case: {}", inc.kind, inc.status));
            continue;
        }
        let exempt = prop.timeout_exempt_phase();
        let in_exempt_phase = exempt.is_some() && exempt == Some(inc.phase);
        if inc.kind == "crash" && !prop.sut_crash_is_violation() {
            crash_notes.push(json!({"kind": inc.kind, "section": inc.sec, "choices_hex": inc.input_hex, "index": inc.index,
                                    "first_status": inc.status, "note": "the code under test killed the worker process; not a verdict for this property (C14 owns crashes), not re-run"}));
            sut_crashes += 1;
            continue;
        }
        if (inc.kind == "timeout" && !timeout_is_violation) || in_exempt_phase {
            // not a verdict for this property: recorded as an inconclusive case
            let note = if in_exempt_phase {
                "ended inside a part of the case that is a precondition, not the property's subject (phase mark); inconclusive, not re-run"
            } else {
                "over the per-case time budget; inconclusive, not re-run"
            };
            crash_notes.push(json!({"kind": inc.kind, "section": inc.sec, "choices_hex": inc.input_hex, "index": inc.index,
                                    "first_status": inc.status, "note": note}));
            over_budget += 1;
            continue;
        }
        // what the in-flight input was, decoded without running it
        let desc: Option<Value> = {
            let bytes = inc.input_hex.as_ref().map(|h| unhex(h)).unwrap_or_default();
            let input = match (&inc.input_hex, inc.index) {
                (Some(_), _) => Some(Input::Bytes(&bytes)),
                (None, Some(i)) => Some(Input::Index(i)),
                _ => None,
            };
            if inc.sec == "replays" { None } else { input.and_then(|i| prop.describe(&inc.sec, &i, tier)) }
        };
        if inc.kind == "timeout" {
            // a listed mechanism that is known not to terminate: counted, not re-run
            if let Some(d) = &desc {
                if let Some(k) = prop.known(&Viol::new("timeout", "", inc.status.clone(), d.clone())) {
                    if known.active(id, k) {
                        let ex = json!({"property": id, "section": inc.sec, "tier": tier.name(), "seed": seed,
                            "choices_hex": inc.input_hex, "index": inc.index, "signature": "timeout",
                            "expected": "the case finishes (result or error) without killing the process",
                            "observed": format!("no result within {}", inc.status), "case": d});
                        known_hits.entry(k.to_string()).or_insert((0, ex)).0 += 1;
                        continue;
                    }
                }
            }
        }
        reruns += 1;
        if reruns > 16 {
            infra.push(format!("more than 16 crash/timeout incidents to confirm; {} at section {} left unconfirmed", inc.kind, inc.sec));
            continue;
        }
        let limit = if inc.kind == "timeout" { timeout_s * 4 } else { timeout_s * 2 };
        let (status, timed_out, verdict) = run_alone(&exe, id, tier, root, inc, limit.max(30));
        let died = !timed_out && verdict.is_none();
        let note = json!({"kind": inc.kind, "section": inc.sec, "choices_hex": inc.input_hex, "index": inc.index,
                          "first_status": inc.status, "alone_status": status, "alone_timed_out": timed_out});
        crash_notes.push(note.clone());
        let mk = |sig: &str, obs: String| {
            json!({"property": id, "section": inc.sec, "tier": tier.name(), "seed": seed,
                   "choices_hex": inc.input_hex, "index": inc.index, "signature": sig,
                   "expected": "the case finishes (result or error) without killing the process",
                   "observed": obs, "case": verdict.as_ref().and_then(|v| v.get("case").cloned()).or_else(|| desc.clone()).unwrap_or(Value::Null)})
        };
        if died {
            let sig = format!("abort:{status}");
            let ex = mk(&sig, format!("process died: {status} (first run: {})", inc.status));
            let kid = crate::props::lookup(id).and_then(|p| {
                p.known(&Viol::new(&sig, "", status.clone(), ex["case"].clone()))
            });
            match kid {
                Some(k) if known.active(id, k) => {
                    known_hits.entry(k.to_string()).or_insert((0, ex)).0 += 1;
                }
                _ => {
                    viols.entry(sig).or_insert((0, ex)).0 += 1;
                }
            }
        } else if timed_out {
            let alone_phase: Option<u32> = std::fs::read_to_string(root.join("harness/target/runs").join(format!("one-{}-{}.phase", id, std::process::id()))).ok().and_then(|t| t.trim().parse().ok());
            if exempt.is_some() && alone_phase == exempt {
                over_budget += 1;
            } else if timeout_is_violation {
                let sig = "timeout".to_string();
                let ex = mk(&sig, format!("no result within {limit}s when run alone"));
                let kid = prop.known(&Viol::new(&sig, "", "timeout".to_string(), ex["case"].clone()));
                match kid {
                    Some(k) if known.active(id, k) => {
                        known_hits.entry(k.to_string()).or_insert((0, ex)).0 += 1;
                    }
                    _ => {
                        viols.entry(sig).or_insert((0, ex)).0 += 1;
                    }
                }
            } else {
                infra.push(format!("case reproducibly exceeds {limit}s: section {} (see evidence crashes)", inc.sec));
            }
        } else if let Some(v) = &verdict {
            // finished alone: take its verdict
            if v["verdict"] == "violation" {
                let ex = v["violation"].clone();
                let sig = ex["signature"].as_str().unwrap_or("?").to_string();
                let kid = v["known"].as_str().map(|s| s.to_string());
                match kid {
                    Some(k) if known.active(id, &k) => {
                        known_hits.entry(k).or_insert((0, ex)).0 += 1;
                    }
                    _ => {
                        viols.entry(sig).or_insert((0, ex)).0 += 1;
                    }
                }
            } else {
                unconfirmed += 1;
            }
        }
    }

    // ---- health floors
    for (label, den, floor) in prop.health_floors(tier) {
        let n = *labels.get(label).unwrap_or(&0) as f64;
        let d = if den.is_empty() { evaluations as f64 } else { *labels.get(den).unwrap_or(&0) as f64 };
        let ratio = if d > 0.0 { n / d } else { 0.0 };
        if ratio < floor {
            infra.push(format!("generator health: {label}/{} = {ratio:.4}, floor {floor}", if den.is_empty() { "evaluations" } else { den }));
        }
    }

    // ---- violations -> replay files
    let found_dir = root.join("replays/found");
    let mut violation_lines = vec![];
    if !viols.is_empty() {
        let _ = std::fs::create_dir_all(&found_dir);
    }
    for (sig, (n, ex)) in viols.iter() {
        let h = crate::choices::fnv(sig.as_bytes()) & 0xffffff;
        let p = found_dir.join(format!("{id}-{h:06x}.json"));
        let mut exo = ex.clone();
        if let Some(o) = exo.as_object_mut() {
            o.insert("occurrences".into(), json!(n));
        }
        let _ = std::fs::write(&p, serde_json::to_string_pretty(&exo).unwrap());
        violation_lines.push(format!("VIOLATION property={id} replay={}", p.display()));
    }

    // ---- evidence
    let secs = prop.sections(tier);
    let all_exhaustive = !secs.is_empty() && secs.iter().all(|s| s.exhaustive);
    let exhaustive_subspaces: Vec<Value> = secs
        .iter()
        .filter(|s| s.exhaustive)
        .map(|s| json!(format!("{}: {}", s.name, s.what)))
        .collect();
    let sections_json: Vec<Value> = secs
        .iter()
        .map(|s| match &s.kind {
            SectionKind::Enum { count } => json!({"name": s.name, "what": s.what, "kind": "enumerated", "count": count, "exhaustive": s.exhaustive}),
            SectionKind::Random { cases, maxlen } => json!({"name": s.name, "what": s.what, "kind": "proptest-generated", "cases": cases, "max_choice_bytes": maxlen}),
        })
        .collect();
    // sample selection: spread, at most 12
    let mut chosen: Vec<Value> = vec![];
    if !samples.is_empty() {
        let stride = (samples.len() / 12).max(1);
        for (i, s) in samples.iter().enumerate() {
            if i % stride == 0 && chosen.len() < 12 {
                chosen.push(s.clone());
            }
        }
    }
    if chosen.is_empty() {
        chosen.push(json!({"note": "no sample offered by this run"}));
    }
    let mut coverage = Map::new();
    coverage.insert("evaluations".into(), json!(evaluations));
    coverage.insert("distinct_nontrivial".into(), json!(keys.len() as u64 + nontrivial_enum));
    coverage.insert("rule".into(), json!(prop.rule()));
    coverage.insert("samples".into(), json!(chosen));
    if all_exhaustive {
        coverage.insert("exhaustive".into(), json!(true));
    }
    coverage.insert("passes".into(), json!(passes));
    coverage.insert("labels".into(), json!(labels));
    coverage.insert("skipped".into(), json!(skipped));
    coverage.insert("generator_rejects".into(), json!(rejects));
    coverage.insert("generator_reject_messages".into(), json!(reject_msgs));
    coverage.insert("excluded_by_construction".into(), json!(excluded));
    coverage.insert("exhaustive_subspaces".into(), json!(exhaustive_subspaces));
    coverage.insert("sections".into(), json!(sections_json));
    coverage.insert(
        "known_findings_hit".into(),
        json!(known_hits.iter().map(|(k, (n, _))| (k.clone(), *n)).collect::<BTreeMap<_, _>>()),
    );
    coverage.insert("incidents".into(), json!(crash_notes));
    coverage.insert("incidents_not_reproduced_alone".into(), json!(unconfirmed));
    coverage.insert("cases_over_time_budget".into(), json!(over_budget));
    coverage.insert("cases_where_the_code_under_test_crashed_the_process".into(), json!(sut_crashes));
    coverage.insert("shards".into(), json!(nshards));
    if let Some(o) = prop.extra_evidence(tier).as_object() {
        for (k, v) in o {
            coverage.insert(k.clone(), v.clone());
        }
    }
    let ev = json!({
        "property_id": id,
        "tier": tier.name(),
        "seed": seed,
        "level": prop.level(),
        "coverage": coverage,
        "assumptions": prop.assumptions(),
        "wall_s": t0.elapsed().as_secs_f64(),
        "violations": viols.len(),
        "infrastructure_notes": infra,
    });
    let evdir = root.join("evidence");
    let _ = std::fs::create_dir_all(&evdir);
    let _ = std::fs::write(evdir.join(format!("{id}.json")), serde_json::to_string_pretty(&ev).unwrap());

    // ---- report
    for e in known.listed(id) {
        let hit = known_hits.get(&e.id).map(|x| x.0).unwrap_or(0);
        if hit > 0 {
            println!("KNOWN-FINDING: property={id} {} [{}; {} instance(s) this run]", e.what, e.id, hit);
        } else {
            println!("KNOWN-FINDING: property={id} {} [{}; not hit by this run]", e.what, e.id);
        }
    }
    for l in &violation_lines {
        println!("{l}");
    }
    for (sig, (n, ex)) in viols.iter() {
        eprintln!("  violation sig={sig} occurrences={n}\n    expected: {}\n    observed: {}", ex["expected"].as_str().unwrap_or(""), ex["observed"].as_str().unwrap_or(""));
    }
    for n in &infra {
        eprintln!("INFRA: {n}");
    }
    println!(
        "{id} {}: evaluations={} distinct_nontrivial={} violations={} known_hit={} wall={:.1}s",
        tier.name(),
        evaluations,
        keys.len() as u64 + nontrivial_enum,
        viols.len(),
        known_hits.len(),
        t0.elapsed().as_secs_f64()
    );
    let _ = std::fs::remove_dir_all(&dir);
    if !viols.is_empty() {
        1
    } else if !infra.is_empty() {
        2
    } else {
        0
    }
}
