//! G3: Chialisp programs (DESIGN §2.4): AST, renderer, type-directed generator, argument
//! generator.  Well-scoped and well-shaped by construction.

use crate::choices::Choices;
use crate::gen_value::*;
use num_bigint::BigInt;
use std::collections::BTreeSet;
use std::rc::Rc;

// ---------------------------------------------------------------------------------------------
// AST

#[derive(Clone, Debug, PartialEq)]
pub enum Ty {
    Int,
    /// small non-negative counter (call sites clamp with (logand e 7))
    Nat,
    Atom,
    Any,
    List(Box<Ty>),
    Pair(Box<Ty>, Box<Ty>),
    Fun(Vec<Ty>, Box<Ty>),
}

#[derive(Clone, Debug)]
pub enum Pat {
    Nil,
    Name(String, Ty),
    Cons(Box<Pat>, Box<Pat>),
    At(String, Box<Pat>),
}

#[derive(Clone, Debug)]
pub enum MacroKind {
    /// (qq (OP (unquote A) (unquote B)))
    BinOp(&'static str),
    /// (qq (if (unquote C) (unquote A) (unquote B)))
    IfLike,
    /// (qq (c (unquote A) (c (unquote B) ())))
    Pairlist,
    /// (qq (OTHER (unquote A) (unquote A)))  -- macro using a macro
    Twice(String),
    /// (qq (FN (unquote A)))  -- macro expanding to a function call
    CallFn(String),
}

#[derive(Clone, Debug)]
pub enum Helper {
    Defun {
        name: String,
        inline: bool,
        params: Pat,
        body: Expr,
        ret: Ty,
    },
    Defconstant {
        name: String,
        value: V,
        ty: Ty,
    },
    Defconst {
        name: String,
        expr: Expr,
        ty: Ty,
    },
    Defmacro {
        name: String,
        nparams: usize,
        kind: MacroKind,
    },
}

#[derive(Clone, Debug)]
pub enum Expr {
    Int(BigInt),
    Str(Vec<u8>),
    Hex(Vec<u8>),
    Nil,
    Quote(V),
    Var(String),
    If(Box<Expr>, Box<Expr>, Box<Expr>),
    Prim(&'static str, Vec<Expr>),
    Call {
        f: String,
        args: Vec<Expr>,
        rest: Option<Box<Expr>>,
    },
    Let {
        star: bool,
        binds: Vec<(String, Expr)>,
        body: Box<Expr>,
    },
    /// hint: 0 assign, 1 assign-inline, 2 assign-lambda.  `binds` in source order; `order` gives the
    /// dependency order in which they were generated.
    Assign {
        hint: u8,
        binds: Vec<(Pat, Expr)>,
        order: Vec<usize>,
        body: Box<Expr>,
    },
    Lambda {
        caps: Vec<String>,
        params: Pat,
        body: Box<Expr>,
    },
    Apply(Box<Expr>, Box<Expr>),
    FunRef(String),
    List(Vec<Expr>),
    /// (qq (a b (unquote e) ...)): literal atoms and unquoted expressions in a proper list
    QQList(Vec<Result<V, Expr>>),
    MacroCall {
        name: String,
        args: Vec<Expr>,
    },
    ModExpr(Box<Program>),
}

#[derive(Clone, Debug)]
pub struct Program {
    pub params: Pat,
    pub helpers: Vec<Helper>,
    pub body: Expr,
}

#[derive(Clone, Copy, Debug, PartialEq, Eq)]
pub enum Dialect {
    Classic,
    Cl21,
    Strict21,
    Cl22,
    Cl23,
    Cl231,
    Cl24,
}

pub const MODERN: &[Dialect] = &[Dialect::Cl21, Dialect::Strict21, Dialect::Cl22, Dialect::Cl23, Dialect::Cl231, Dialect::Cl24];

impl Dialect {
    pub fn sigil(&self) -> &'static str {
        match self {
            Dialect::Classic => "",
            Dialect::Cl21 => "*standard-cl-21*",
            Dialect::Strict21 => "*strict-cl-21*",
            Dialect::Cl22 => "*standard-cl-22*",
            Dialect::Cl23 => "*standard-cl-23*",
            Dialect::Cl231 => "*standard-cl-23.1*",
            Dialect::Cl24 => "*standard-cl-24*",
        }
    }
    pub fn name(&self) -> &'static str {
        match self {
            Dialect::Classic => "classic",
            Dialect::Cl21 => "cl21",
            Dialect::Strict21 => "strict-cl21",
            Dialect::Cl22 => "cl22",
            Dialect::Cl23 => "cl23",
            Dialect::Cl231 => "cl23.1",
            Dialect::Cl24 => "cl24",
        }
    }
    pub fn strict(&self) -> bool {
        matches!(self, Dialect::Strict21 | Dialect::Cl23 | Dialect::Cl231 | Dialect::Cl24)
    }
    pub fn int_fix(&self) -> bool {
        matches!(self, Dialect::Cl231 | Dialect::Cl24)
    }
    pub fn stepping(&self) -> i32 {
        match self {
            Dialect::Classic => 0,
            Dialect::Cl21 | Dialect::Strict21 => 21,
            Dialect::Cl22 => 22,
            Dialect::Cl23 | Dialect::Cl231 => 23,
            Dialect::Cl24 => 24,
        }
    }
    pub fn parse(s: &str) -> Option<Dialect> {
        [Dialect::Classic, Dialect::Cl21, Dialect::Strict21, Dialect::Cl22, Dialect::Cl23, Dialect::Cl231, Dialect::Cl24]
            .into_iter()
            .find(|d| d.name() == s)
    }
}

// ---------------------------------------------------------------------------------------------
// rendering

fn canonical_int(b: &[u8]) -> bool {
    !b.is_empty() && int_bytes_big(&BigInt::from_signed_bytes_be(b)) == b
}

pub fn int_bytes_big(n: &BigInt) -> Vec<u8> {
    if n == &BigInt::from(0) {
        vec![]
    } else {
        n.to_signed_bytes_be()
    }
}

pub fn render_data(v: &V) -> String {
    match v {
        V::A(b) => {
            if b.is_empty() {
                "()".to_string()
            } else if canonical_int(b) && b.len() <= 8 {
                BigInt::from_signed_bytes_be(b).to_string()
            } else {
                format!("0x{}", hex::encode(b))
            }
        }
        V::P(_, _) => {
            let mut s = String::from("(");
            let mut cur = v;
            let mut first = true;
            loop {
                match cur {
                    V::P(l, r) => {
                        if !first {
                            s.push(' ');
                        }
                        first = false;
                        s.push_str(&render_data(l));
                        cur = r;
                    }
                    V::A(b) => {
                        if !b.is_empty() {
                            s.push_str(" . ");
                            s.push_str(&render_data(cur));
                        }
                        break;
                    }
                }
            }
            s.push(')');
            s
        }
    }
}

pub fn render_pat(p: &Pat) -> String {
    match p {
        Pat::Nil => "()".to_string(),
        Pat::Name(n, _) => n.clone(),
        Pat::At(n, p) => format!("(@ {} {})", n, render_pat(p)),
        Pat::Cons(_, _) => {
            let mut s = String::from("(");
            let mut cur = p;
            let mut first = true;
            loop {
                match cur {
                    Pat::Cons(a, b) => {
                        if !first {
                            s.push(' ');
                        }
                        first = false;
                        s.push_str(&render_pat(a));
                        cur = b;
                    }
                    Pat::Nil => break,
                    other => {
                        s.push_str(" . ");
                        s.push_str(&render_pat(other));
                        break;
                    }
                }
            }
            s.push(')');
            s
        }
    }
}

fn render_str(b: &[u8]) -> String {
    format!("\"{}\"", String::from_utf8_lossy(b))
}

pub fn render_expr(e: &Expr) -> String {
    match e {
        Expr::Int(n) => n.to_string(),
        Expr::Str(b) => render_str(b),
        Expr::Hex(b) => format!("0x{}", hex::encode(b)),
        Expr::Nil => "()".to_string(),
        Expr::Quote(v) => format!("(q . {})", render_data(v)),
        Expr::Var(n) => n.clone(),
        Expr::If(c, a, b) => format!("(if {} {} {})", render_expr(c), render_expr(a), render_expr(b)),
        Expr::Prim(op, args) => {
            let mut s = format!("({op}");
            for a in args {
                s.push(' ');
                s.push_str(&render_expr(a));
            }
            s.push(')');
            s
        }
        Expr::Call { f, args, rest } => {
            let mut s = format!("({f}");
            for a in args {
                s.push(' ');
                s.push_str(&render_expr(a));
            }
            if let Some(r) = rest {
                s.push_str(" &rest ");
                s.push_str(&render_expr(r));
            }
            s.push(')');
            s
        }
        Expr::Let { star, binds, body } => {
            let mut s = format!("({} (", if *star { "let*" } else { "let" });
            for (i, (n, e)) in binds.iter().enumerate() {
                if i > 0 {
                    s.push(' ');
                }
                s.push_str(&format!("({} {})", n, render_expr(e)));
            }
            s.push_str(") ");
            s.push_str(&render_expr(body));
            s.push(')');
            s
        }
        Expr::Assign { hint, binds, body, .. } => {
            let kw = match hint {
                0 => "assign",
                1 => "assign-inline",
                _ => "assign-lambda",
            };
            let mut s = format!("({kw}");
            for (p, e) in binds {
                s.push(' ');
                s.push_str(&render_pat(p));
                s.push(' ');
                s.push_str(&render_expr(e));
            }
            s.push(' ');
            s.push_str(&render_expr(body));
            s.push(')');
            s
        }
        Expr::Lambda { caps, params, body } => {
            let ps = render_pat(params);
            // params render as a list "(X Y)" / "()" / improper; captures are consed in front
            let inner = if caps.is_empty() {
                ps
            } else {
                let capform = format!("(& {})", caps.join(" "));
                match params {
                    Pat::Nil => format!("({capform})"),
                    Pat::Cons(_, _) => format!("({} {}", capform, &ps[1..]),
                    _ => format!("({capform} . {ps})"),
                }
            };
            format!("(lambda {} {})", inner, render_expr(body))
        }
        Expr::Apply(f, a) => format!("(a {} {})", render_expr(f), render_expr(a)),
        Expr::FunRef(n) => n.clone(),
        Expr::List(items) => {
            let mut s = String::from("(list");
            for a in items {
                s.push(' ');
                s.push_str(&render_expr(a));
            }
            s.push(')');
            s
        }
        Expr::QQList(items) => {
            let mut s = String::from("(qq (");
            for (i, it) in items.iter().enumerate() {
                if i > 0 {
                    s.push(' ');
                }
                match it {
                    Ok(v) => s.push_str(&render_data(v)),
                    Err(e) => s.push_str(&format!("(unquote {})", render_expr(e))),
                }
            }
            s.push_str("))");
            s
        }
        Expr::MacroCall { name, args } => {
            let mut s = format!("({name}");
            for a in args {
                s.push(' ');
                s.push_str(&render_expr(a));
            }
            s.push(')');
            s
        }
        Expr::ModExpr(p) => render_program(p, None),
    }
}

pub fn render_helper(h: &Helper, strict: bool) -> String {
    match h {
        Helper::Defun { name, inline, params, body, .. } => format!(
            "({} {} {} {})",
            if *inline { "defun-inline" } else { "defun" },
            name,
            render_pat(params),
            render_expr(body)
        ),
        Helper::Defconstant { name, value, .. } => format!("(defconstant {} {})", name, render_data(value)),
        Helper::Defconst { name, expr, .. } => format!("(defconst {} {})", name, render_expr(expr)),
        Helper::Defmacro { name, nparams, kind } => {
            let ps: Vec<String> = (0..*nparams).map(|i| format!("M{i}")).collect();
            let uq = |i: usize| format!("(unquote M{i})");
            let body = match kind {
                MacroKind::BinOp(op) => format!("(qq ({} {} {}))", op, uq(0), uq(1)),
                MacroKind::IfLike => format!("(qq (if {} {} {}))", uq(0), uq(1), uq(2)),
                MacroKind::Pairlist => format!("(qq (c {} (c {} ())))", uq(0), uq(1)),
                MacroKind::Twice(other) => format!("(qq ({} {} {}))", other, uq(0), uq(0)),
                MacroKind::CallFn(f) => format!("(qq ({} {}))", f, uq(0)),
            };
            let _ = strict;
            format!("(defmacro {} ({}) {})", name, ps.join(" "), body)
        }
    }
}

/// `dialect`: Some(d) renders the sigil include (None for nested mods, which inherit)
pub fn render_program(p: &Program, dialect: Option<Dialect>) -> String {
    let mut s = format!("(mod {}", render_pat(&p.params));
    let strict = dialect.map(|d| d.strict()).unwrap_or(false);
    if let Some(d) = dialect {
        if d != Dialect::Classic {
            s.push_str(&format!("\n  (include {})", d.sigil()));
        }
    }
    for h in &p.helpers {
        s.push_str("\n  ");
        s.push_str(&render_helper(h, strict));
    }
    s.push_str("\n  ");
    s.push_str(&render_expr(&p.body));
    s.push_str("\n)");
    s
}

// ---------------------------------------------------------------------------------------------
// generator

#[derive(Clone, Debug)]
pub struct FnSig {
    pub name: String,
    pub inline: bool,
    pub params: Vec<Pat>,
    pub rest: Option<(String, Ty)>,
    pub ret: Ty,
    /// self-recursive through a list or counter template (call sites must pass well-founded args)
    pub recursive: bool,
    /// the body makes function values (lambda, assign-lambda, function name as a value), itself or
    /// through the helpers it calls: not callable from a defconst (known C14 finding)
    pub fun_values: bool,
}

#[derive(Clone, Debug)]
pub struct MacSig {
    pub name: String,
    pub kind: MacroKind,
}

#[derive(Clone, Debug, Default)]
pub struct GenCfg {
    pub max_helpers: usize,
    pub max_depth: usize,
    pub max_params: usize,
    /// restrict to the subset the classic compiler accepts
    pub classic_subset: bool,
    /// lower-case parameter names (C17)
    pub lowercase: bool,
    pub allow_lambda: bool,
    pub allow_assign: bool,
    pub allow_let: bool,
    pub allow_macros: bool,
    pub allow_modexpr: bool,
    pub allow_rest: bool,
    pub no_defconst: bool,
}

impl GenCfg {
    pub fn modern(quick: bool) -> GenCfg {
        GenCfg {
            max_helpers: if quick { 5 } else { 8 },
            max_depth: if quick { 4 } else { 6 },
            max_params: 40,
            classic_subset: false,
            lowercase: false,
            allow_lambda: true,
            allow_assign: true,
            allow_let: true,
            allow_macros: true,
            allow_modexpr: true,
            allow_rest: true,
            no_defconst: false,
        }
    }
    pub fn classic(quick: bool) -> GenCfg {
        GenCfg {
            max_helpers: if quick { 4 } else { 6 },
            max_depth: if quick { 3 } else { 5 },
            max_params: 40,
            classic_subset: true,
            lowercase: false,
            allow_lambda: false,
            allow_assign: false,
            allow_let: false,
            allow_macros: true,
            allow_modexpr: false,
            allow_rest: false,
            no_defconst: false,
        }
    }
}

pub struct Gen<'a, 'b> {
    pub c: &'a mut Choices<'b>,
    pub cfg: GenCfg,
    pub fns: Vec<FnSig>,
    pub macs: Vec<MacSig>,
    pub consts: Vec<(String, Ty)>,
    pub feats: BTreeSet<&'static str>,
    pub counter: usize,
    /// names that exist anywhere in the program (integer literals must not spell them)
    pub all_names: BTreeSet<Vec<u8>>,
    /// inside a defconst expression: function names as values are not generated there (a
    /// defconst whose value mentions a function as a value sends the compiler into unbounded
    /// recursion -- known finding under C14; excluded here by construction so the search goes on)
    pub in_defconst: bool,
    /// current nesting of let/assign forms and the limit for the function being generated.
    /// Compile time of the let desugaring grows like (number of parameters)^(nesting): 15
    /// parameters and 4 nested let* take cl21 more than 30 s (noted as a C14 candidate), so the
    /// nesting is capped by construction, harder when the parameter list is long.
    pub let_depth: usize,
    pub let_limit: usize,
    /// set while a helper body is generated as soon as it makes a function value
    pub fun_value_use: bool,
}

type Scope = Vec<(String, Ty)>;

fn is_sub(a: &Ty, b: &Ty) -> bool {
    // a usable where b expected
    match (a, b) {
        (_, Ty::Any) => !matches!(a, Ty::Fun(_, _)),
        (Ty::Int, Ty::Int) | (Ty::Nat, Ty::Int) | (Ty::Nat, Ty::Nat) => true,
        (Ty::Int, Ty::Atom) | (Ty::Nat, Ty::Atom) | (Ty::Atom, Ty::Atom) => true,
        (Ty::List(x), Ty::List(y)) => is_sub(x, y),
        (Ty::Pair(a1, a2), Ty::Pair(b1, b2)) => is_sub(a1, b1) && is_sub(a2, b2),
        (Ty::Fun(a1, r1), Ty::Fun(a2, r2)) => a1 == a2 && r1 == r2,
        _ => false,
    }
}

pub fn pat_ty(p: &Pat) -> Ty {
    match p {
        Pat::Nil => Ty::Any,
        Pat::Name(_, t) => t.clone(),
        Pat::At(_, p) => pat_ty(p),
        Pat::Cons(a, b) => Ty::Pair(Box::new(pat_ty(a)), Box::new(pat_ty(b))),
    }
}

pub fn pat_names(p: &Pat, out: &mut Vec<(String, Ty)>) {
    match p {
        Pat::Nil => {}
        Pat::Name(n, t) => out.push((n.clone(), t.clone())),
        Pat::At(n, p) => {
            out.push((n.clone(), pat_ty(p)));
            pat_names(p, out);
        }
        Pat::Cons(a, b) => {
            pat_names(a, out);
            pat_names(b, out);
        }
    }
}

pub fn list_pat(items: Vec<Pat>, tail: Pat) -> Pat {
    let mut r = tail;
    for i in items.into_iter().rev() {
        r = Pat::Cons(Box::new(i), Box::new(r));
    }
    r
}

const BIN_INT_OPS: &[&str] = &["+", "-", "*", "logand", "logior", "logxor"];
const STRS: &[&str] = &["hello", "a", "", "abc def", "x'y", "chia", "0x41", "12", "q", "the quick brown fox"];

impl<'a, 'b> Gen<'a, 'b> {
    pub fn new(c: &'a mut Choices<'b>, cfg: GenCfg) -> Self {
        // reserved: in the non-strict dialects a bare integer is looked up as a name first, and
        // 64 spells @ (the whole environment)
        let mut reserved = BTreeSet::new();
        reserved.insert(b"@".to_vec());
        Gen {
            c,
            cfg,
            fns: vec![],
            macs: vec![],
            consts: vec![],
            feats: BTreeSet::new(),
            counter: 0,
            all_names: reserved,
            in_defconst: false,
            fun_value_use: false,
            let_depth: 0,
            let_limit: 3,
        }
    }

    fn fresh(&mut self, prefix: &str) -> String {
        self.counter += 1;
        // lower-case parameters (the unused-argument check's subjects) start with letters from
        // all over the alphabet: the check sorts and compares names
        let prefix = if prefix == "p" { *self.c.choose(&["b", "d", "e", "g", "h", "k", "m", "n", "p", "s", "t", "u", "v", "w", "y", "z"]) } else { prefix };
        let n = format!("{}{}", prefix, self.counter);
        self.all_names.insert(n.as_bytes().to_vec());
        n
    }

    fn feat(&mut self, f: &'static str) {
        self.feats.insert(f);
    }

    fn gen_leaf_ty(&mut self) -> Ty {
        match self.c.weighted(&[8, 3, 3, 3, 2]) {
            0 => Ty::Int,
            1 => Ty::Atom,
            2 => Ty::Any,
            3 => Ty::List(Box::new(Ty::Int)),
            _ => Ty::Pair(Box::new(Ty::Int), Box::new(Ty::Int)),
        }
    }

    /// one element pattern of a parameter list
    fn gen_elem_pat(&mut self, prefix: &str, depth: usize) -> Pat {
        let k = if depth == 0 || self.cfg.classic_subset && depth < 2 && false {
            0
        } else {
            self.c.weighted(&[12, 2, 1, 1])
        };
        match k {
            0 => {
                let t = self.gen_leaf_ty();
                Pat::Name(self.fresh(prefix), t)
            }
            1 => {
                // nested destructuring (X . Y) / (X Y) / (X Y Z) / (X Y Z . W) ...
                self.feat("destructured-param");
                let a = self.gen_elem_pat(prefix, depth - 1);
                let b = if self.c.chance(100) {
                    let t = self.gen_leaf_ty();
                    Pat::Name(self.fresh(prefix), t)
                } else {
                    // 1..3 further elements, proper or dotted
                    let k = self.c.range(1, 3);
                    if k >= 2 {
                        self.feat("destructured-param>=3");
                    }
                    let mut items = vec![];
                    for j in 0..k {
                        items.push(if j == 0 { self.gen_elem_pat(prefix, depth - 1) } else { let t = self.gen_leaf_ty(); Pat::Name(self.fresh(prefix), t) });
                    }
                    let tail = if self.c.chance(60) {
                        let t = self.gen_leaf_ty();
                        Pat::Name(self.fresh(prefix), t)
                    } else {
                        Pat::Nil
                    };
                    list_pat(items, tail)
                };
                Pat::Cons(Box::new(a), Box::new(b))
            }
            2 => {
                if self.cfg.classic_subset {
                    let t = self.gen_leaf_ty();
                    return Pat::Name(self.fresh(prefix), t);
                }
                self.feat("at-capture");
                let inner_a = self.gen_elem_pat(prefix, depth - 1);
                let tb = self.gen_leaf_ty();
                let inner_b = Pat::Name(self.fresh(prefix), tb);
                let n = self.fresh(prefix);
                Pat::At(n, Box::new(Pat::Cons(Box::new(inner_a), Box::new(inner_b))))
            }
            _ => {
                let t = self.gen_leaf_ty();
                Pat::Name(self.fresh(prefix), t)
            }
        }
    }

    fn gen_param_list(&mut self, prefix: &str, max: usize, allow_rest: bool) -> (Vec<Pat>, Option<(String, Ty)>) {
        let n = match self.c.weighted(&[30, 4, 2]) {
            0 => self.c.range(0, max.min(4)),
            1 => self.c.range(5, max.min(17).max(5)),
            _ => self.c.range(max.min(18), max.max(18).min(40)),
        }
        .min(max);
        if n >= 16 {
            self.feat("params>=16");
        }
        if n >= 31 {
            self.feat("params>=31");
        }
        let items: Vec<Pat> = (0..n)
            .map(|_| if n > 8 { Pat::Name(self.fresh(prefix), Ty::Int) } else { self.gen_elem_pat(prefix, 2) })
            .collect();
        let rest = if allow_rest && self.c.chance(40) {
            self.feat("rest-param");
            Some((self.fresh(prefix), Ty::List(Box::new(Ty::Int))))
        } else {
            None
        };
        (items, rest)
    }

    fn full_pat(items: &[Pat], rest: &Option<(String, Ty)>) -> Pat {
        let tail = match rest {
            Some((n, t)) => Pat::Name(n.clone(), t.clone()),
            None => Pat::Nil,
        };
        list_pat(items.to_vec(), tail)
    }

    // -------- literals

    fn lit_int(&mut self) -> Expr {
        loop {
            let n: BigInt = match self.c.weighted(&[12, 4, 2, 1]) {
                0 => BigInt::from(self.c.range(0, 20)),
                1 => BigInt::from(self.c.range(0, 2000) as i64 - 1000),
                2 => {
                    let k = self.c.range(2, 9);
                    let b = self.c.bytes(k);
                    BigInt::from_signed_bytes_be(&b)
                }
                _ => {
                    self.feat("big-literal");
                    let k = self.c.range(9, 64);
                    let b = self.c.bytes(k);
                    BigInt::from_signed_bytes_be(&b)
                }
            };
            // non-strict dialects look a bare integer up as a name first: never spell a name
            if !self.all_names.contains(&int_bytes_big(&n)) {
                return Expr::Int(n);
            }
        }
    }

    fn lit_atom(&mut self) -> Expr {
        match self.c.weighted(&[6, 4, 3]) {
            0 => self.lit_int(),
            1 => {
                self.feat("string-literal");
                Expr::Str(self.c.choose(STRS).as_bytes().to_vec())
            }
            _ => {
                self.feat("hex-literal");
                let k = self.c.range(1, 6);
                let mut b = self.c.bytes(k);
                if self.c.chance(60) {
                    self.feat("zero-prefixed-hex-literal");
                    b.insert(0, 0);
                }
                Expr::Hex(b)
            }
        }
    }

    fn lit_data(&mut self, depth: usize) -> V {
        if depth == 0 || self.c.chance(140) {
            match self.c.pick(4) {
                0 => int(self.c.range(0, 50) as i64),
                1 => int(self.c.range(0, 4000) as i64 - 2000),
                2 => V::A(self.c.bytes(3)),
                _ => nil(),
            }
        } else if self.c.chance(40) {
            // data that looks like code: a short list headed by a small opcode number
            // (q a i c f r l x =), e.g. (5 2) (6 3) (2 (1 . 5) 1) -- an optimiser that walks
            // into quoted data would take these for operator forms
            self.feat("quoted-data-looks-like-code");
            let head = int(*self.c.choose(&[1i64, 2, 3, 4, 5, 6, 7, 8, 9, 5, 6]));
            let n = self.c.range(1, 2);
            let mut items = vec![head];
            for _ in 0..n {
                items.push(if self.c.chance(170) { int(self.c.range(1, 40) as i64) } else { self.lit_data(depth - 1) });
            }
            list(items)
        } else {
            let n = self.c.range(1, 3);
            let items = (0..n).map(|_| self.lit_data(depth - 1)).collect();
            if self.c.chance(50) {
                let t = self.lit_data(0);
                list_tail(items, t)
            } else {
                list(items)
            }
        }
    }

    fn lit_of(&mut self, ty: &Ty) -> Expr {
        match ty {
            Ty::Int => self.lit_int(),
            Ty::Nat => Expr::Int(BigInt::from(self.c.range(0, 5))),
            Ty::Atom => self.lit_atom(),
            Ty::Any => {
                if self.c.chance(100) {
                    self.feat("quoted-data");
                    Expr::Quote(self.lit_data(2))
                } else {
                    self.lit_atom()
                }
            }
            Ty::List(t) => {
                let n = self.c.range(0, 3);
                if n == 0 {
                    Expr::Nil
                } else {
                    Expr::List((0..n).map(|_| self.lit_of(t)).collect())
                }
            }
            Ty::Pair(a, b) => Expr::Prim("c", vec![self.lit_of(a), self.lit_of(b)]),
            Ty::Fun(args, ret) => {
                // constant lambda
                let params: Vec<Pat> = args.iter().map(|t| Pat::Name(self.fresh("X"), t.clone())).collect();
                let body = self.lit_of(ret);
                self.feat("lambda");
                self.fun_value_use = true;
                Expr::Lambda {
                    caps: vec![],
                    params: list_pat(params, Pat::Nil),
                    body: Box::new(body),
                }
            }
        }
    }

    // -------- expressions

    fn vars_of<'s>(&self, scope: &'s Scope, ty: &Ty) -> Vec<&'s (String, Ty)> {
        // innermost binding of each name wins: a shadowed outer binding is not visible
        let mut seen: BTreeSet<&str> = BTreeSet::new();
        let mut out = vec![];
        for v in scope.iter().rev() {
            if seen.insert(&v.0) && is_sub(&v.1, ty) {
                out.push(v);
            }
        }
        out
    }

    pub fn gen_expr(&mut self, ty: &Ty, scope: &Scope, depth: usize) -> Expr {
        if depth == 0 {
            let vs = self.vars_of(scope, ty);
            if !vs.is_empty() && self.c.chance(200) {
                let i = self.c.pick(vs.len());
                return Expr::Var(vs[i].0.clone());
            }
            let ks: Vec<String> = self.consts.iter().filter(|k| is_sub(&k.1, ty)).map(|k| k.0.clone()).collect();
            if !ks.is_empty() && self.c.chance(40) {
                self.feat("constant-use");
                return Expr::Var(ks[self.c.pick(ks.len())].clone());
            }
            return self.lit_of(ty);
        }
        // generic wrappers available at every type
        let w = self.c.weighted(&[
            40, // 0 type-specific production
            8,  // 1 variable / literal
            7,  // 2 if
            if self.cfg.allow_let { 6 } else { 0 },    // 3 let / let*
            if self.cfg.allow_assign { 5 } else { 0 }, // 4 assign
            10, // 5 call of a helper returning ty
            if self.cfg.allow_lambda { 4 } else { 0 }, // 6 apply a function value
            if self.cfg.allow_macros { 3 } else { 0 }, // 7 macro
        ]);
        match w {
            1 => self.gen_expr(ty, scope, 0),
            2 => {
                let c = self.gen_cond(scope, depth - 1);
                let a = self.gen_expr(ty, scope, depth - 1);
                let b = if self.c.chance(24) {
                    self.feat("raise-in-branch");
                    Expr::Prim("x", vec![Expr::Str(b"unreachable?".to_vec())])
                } else {
                    self.gen_expr(ty, scope, depth - 1)
                };
                Expr::If(Box::new(c), Box::new(a), Box::new(b))
            }
            3 | 4 if self.let_depth >= self.let_limit => self.gen_specific(ty, scope, depth),
            3 => {
                self.let_depth += 1;
                let e = self.gen_let(ty, scope, depth);
                self.let_depth -= 1;
                e
            }
            4 => {
                self.let_depth += 1;
                let e = self.gen_assign(ty, scope, depth);
                self.let_depth -= 1;
                e
            }
            5 => match self.gen_call(ty, scope, depth) {
                Some(e) => e,
                None => self.gen_specific(ty, scope, depth),
            },
            6 => {
                // (a FUNVALUE (list args))
                self.feat("apply-function-value");
                let nargs = self.c.range(0, 2);
                let argtys: Vec<Ty> = (0..nargs).map(|_| if self.c.chance(200) { Ty::Int } else { self.gen_leaf_ty() }).collect();
                let fty = Ty::Fun(argtys.clone(), Box::new(ty.clone()));
                let f = self.gen_fun(&fty, scope, depth - 1);
                let args: Vec<Expr> = argtys.iter().map(|t| self.gen_expr(t, scope, depth - 1)).collect();
                Expr::Apply(Box::new(f), Box::new(Expr::List(args)))
            }
            7 => match self.gen_macro_call(ty, scope, depth) {
                Some(e) => e,
                None => self.gen_specific(ty, scope, depth),
            },
            _ => self.gen_specific(ty, scope, depth),
        }
    }

    fn gen_cond(&mut self, scope: &Scope, depth: usize) -> Expr {
        match self.c.weighted(&[5, 4, 3, 2, 2]) {
            0 => {
                let a = self.gen_expr(&Ty::Int, scope, depth);
                let b = self.gen_expr(&Ty::Int, scope, depth);
                Expr::Prim(">", vec![a, b])
            }
            1 => {
                let a = self.gen_expr(&Ty::Atom, scope, depth);
                let b = self.gen_expr(&Ty::Atom, scope, depth);
                Expr::Prim("=", vec![a, b])
            }
            2 => {
                let a = self.gen_expr(&Ty::Any, scope, depth);
                Expr::Prim("l", vec![a])
            }
            3 => self.gen_expr(&Ty::Any, scope, depth),
            _ => {
                let a = self.gen_expr(&Ty::Any, scope, depth);
                Expr::Prim("not", vec![a])
            }
        }
    }

    /// (a (mod (N..) helpers.. body) (list args..)) anywhere an integer is wanted: the nested
    /// program has its own parameters, may have its own helper, and sees nothing of the outer one
    fn gen_nested_mod(&mut self, scope: &Scope, depth: usize) -> Expr {
        self.feat("nested-mod");
        self.feat("nested-mod-in-expression");
        let np = self.c.range(1, 3);
        let params: Vec<Pat> = (0..np).map(|_| Pat::Name(self.fresh("N"), Ty::Int)).collect();
        let saved_fns = std::mem::take(&mut self.fns);
        let saved_macs = std::mem::take(&mut self.macs);
        let saved_consts = std::mem::take(&mut self.consts);
        let saved_cfg = (self.cfg.allow_macros, self.cfg.no_defconst, self.cfg.allow_modexpr);
        self.cfg.allow_macros = false;
        self.cfg.no_defconst = true;
        self.cfg.allow_modexpr = false;
        let mut helpers = vec![];
        if self.c.chance(110) {
            self.feat("nested-mod-with-helper");
            helpers.push(self.gen_helper());
        }
        let mut inner: Scope = vec![];
        for p in &params {
            pat_names(p, &mut inner);
        }
        let body = self.gen_expr(&Ty::Int, &inner, depth.clamp(1, 3));
        self.fns = saved_fns;
        self.macs = saved_macs;
        self.consts = saved_consts;
        self.cfg.allow_macros = saved_cfg.0;
        self.cfg.no_defconst = saved_cfg.1;
        self.cfg.allow_modexpr = saved_cfg.2;
        let args: Vec<Expr> = params.iter().map(|_| self.gen_expr(&Ty::Int, scope, 1)).collect();
        let prog = Program {
            params: list_pat(params, Pat::Nil),
            helpers,
            body,
        };
        Expr::Apply(Box::new(Expr::ModExpr(Box::new(prog))), Box::new(Expr::List(args)))
    }

    fn gen_specific(&mut self, ty: &Ty, scope: &Scope, depth: usize) -> Expr {
        let d = depth - 1;
        match ty {
            Ty::Nat => {
                let e = self.gen_expr(&Ty::Int, scope, d);
                Expr::Prim("logand", vec![e, Expr::Int(BigInt::from(7))])
            }
            Ty::Int => match self.c.weighted(&[14, 3, 3, 3, 3, 2, 2, 2, 2, 2, 1, if self.cfg.allow_modexpr && depth >= 2 { 2 } else { 0 }]) {
                11 => self.gen_nested_mod(scope, d),
                0 => {
                    let op = *self.c.choose(BIN_INT_OPS);
                    let n = if op == "*" { 2 } else { self.c.range(2, 3) };
                    Expr::Prim(op, (0..n).map(|_| self.gen_expr(&Ty::Int, scope, d)).collect())
                }
                1 => self.gen_cond(scope, d),
                2 => {
                    let a = self.gen_expr(&Ty::Atom, scope, d);
                    Expr::Prim("strlen", vec![a])
                }
                3 => {
                    // guarded / unguarded first of a list
                    let l = self.gen_expr(&Ty::List(Box::new(Ty::Int)), scope, d);
                    // (never on a constant: a sub-expression that fails for every input is outside
                    // the properties' quantifiers -- optimisers fold it and reject the program)
                    fn has_var(e: &Expr) -> bool {
                        match e {
                            Expr::Var(_) => true,
                            Expr::Prim(_, a) | Expr::List(a) => a.iter().any(has_var),
                            Expr::If(a, b, c) => has_var(a) || has_var(b) || has_var(c),
                            Expr::Call { args, .. } => args.iter().any(has_var),
                            _ => false,
                        }
                    }
                    if self.c.chance(60) && has_var(&l) {
                        self.feat("unguarded-partial-op");
                        Expr::Prim("f", vec![l])
                    } else {
                        // guard on the same expression only when it is a variable (purity makes
                        // re-evaluation equal anyway)
                        Expr::If(
                            Box::new(Expr::Prim("l", vec![l.clone()])),
                            Box::new(Expr::Prim("f", vec![l])),
                            Box::new(Expr::Int(BigInt::from(0))),
                        )
                    }
                }
                4 => {
                    let p = self.gen_expr(&Ty::Pair(Box::new(Ty::Int), Box::new(Ty::Int)), scope, d);
                    Expr::Prim(if self.c.chance(128) { "f" } else { "r" }, vec![p])
                }
                5 => {
                    let a = self.gen_expr(&Ty::Int, scope, d);
                    let dv = self.c.range(1, 9) as i64 * if self.c.chance(60) { -1 } else { 1 };
                    self.feat("division");
                    let op = *self.c.choose(&["/", "%"]);
                    if self.cfg.classic_subset && op == "%" {
                        Expr::Prim("/", vec![a, Expr::Int(BigInt::from(dv))])
                    } else {
                        Expr::Prim(op, vec![a, Expr::Int(BigInt::from(dv))])
                    }
                }
                6 => {
                    let a = self.gen_expr(&Ty::Int, scope, d);
                    Expr::Prim("lognot", vec![a])
                }
                7 => {
                    let a = self.gen_expr(&Ty::Int, scope, d);
                    let s = self.c.range(0, 10) as i64 - 3;
                    Expr::Prim(if self.c.chance(128) { "ash" } else { "lsh" }, vec![a, Expr::Int(BigInt::from(s))])
                }
                8 => {
                    let n = self.c.range(0, 3);
                    let op = *self.c.choose(&["any", "all"]);
                    Expr::Prim(op, (0..n).map(|_| self.gen_expr(&Ty::Any, scope, d)).collect())
                }
                9 => {
                    let a = self.gen_expr(&Ty::Int, scope, d);
                    let b = self.gen_expr(&Ty::Int, scope, d);
                    let c = self.gen_expr(&Ty::Int, scope, d);
                    self.feat("strict-i");
                    Expr::Prim("i", vec![a, b, c])
                }
                _ => {
                    if self.cfg.classic_subset {
                        return self.lit_int();
                    }
                    let b = self.gen_expr(&Ty::Int, scope, d);
                    let e = Expr::Int(BigInt::from(self.c.range(0, 6)));
                    let m = Expr::Int(BigInt::from(self.c.range(1, 1000)));
                    self.feat("modpow");
                    Expr::Prim("modpow", vec![b, e, m])
                }
            },
            Ty::Atom => match self.c.weighted(&[6, 4, 3, 2, 1]) {
                0 => self.gen_expr(&Ty::Int, scope, d),
                1 => {
                    let n = self.c.range(0, 3);
                    Expr::Prim("concat", (0..n).map(|_| self.gen_expr(&Ty::Atom, scope, d)).collect())
                }
                2 => {
                    let n = self.c.range(1, 2);
                    Expr::Prim("sha256", (0..n).map(|_| self.gen_expr(&Ty::Atom, scope, d)).collect())
                }
                3 => {
                    let s = b"the quick brown fox".to_vec();
                    let a = self.c.range(0, 9);
                    let b = a + self.c.range(0, 9);
                    Expr::Prim("substr", vec![Expr::Str(s), Expr::Int(BigInt::from(a)), Expr::Int(BigInt::from(b))])
                }
                _ => {
                    if self.cfg.classic_subset {
                        return self.lit_atom();
                    }
                    self.feat("keccak/coinid");
                    if self.c.chance(128) {
                        let a = self.gen_expr(&Ty::Atom, scope, d);
                        Expr::Prim("keccak256", vec![a])
                    } else {
                        let amt = self.gen_expr(&Ty::Nat, scope, d);
                        Expr::Prim("coinid", vec![Expr::Hex(vec![0x11; 32]), Expr::Hex(vec![0x22; 32]), amt])
                    }
                }
            },
            Ty::Any => match self.c.weighted(&[5, 4, 3, 3]) {
                0 => self.gen_expr(&Ty::Atom, scope, d),
                1 => {
                    let a = self.gen_expr(&Ty::Any, scope, d);
                    let b = self.gen_expr(&Ty::Any, scope, d);
                    Expr::Prim("c", vec![a, b])
                }
                2 => self.gen_expr(&Ty::List(Box::new(Ty::Int)), scope, d),
                _ => {
                    self.feat("qq");
                    let n = self.c.range(1, 4);
                    let items = (0..n)
                        .map(|_| {
                            if self.c.chance(128) {
                                Ok(self.lit_data(0))
                            } else {
                                Err(self.gen_expr(&Ty::Any, scope, d))
                            }
                        })
                        .collect();
                    Expr::QQList(items)
                }
            },
            Ty::List(t) => match self.c.weighted(&[6, 4, 2, 2]) {
                0 => {
                    let n = self.c.range(0, 4);
                    self.feat("list-macro");
                    Expr::List((0..n).map(|_| self.gen_expr(t, scope, d)).collect())
                }
                1 => {
                    let h = self.gen_expr(t, scope, d);
                    let tl = self.gen_expr(ty, scope, d);
                    Expr::Prim("c", vec![h, tl])
                }
                2 => {
                    let l = self.gen_expr(ty, scope, d);
                    Expr::If(Box::new(Expr::Prim("l", vec![l.clone()])), Box::new(Expr::Prim("r", vec![l])), Box::new(Expr::Nil))
                }
                _ => Expr::Nil,
            },
            Ty::Pair(a, b) => {
                if **a == Ty::Int && **b == Ty::Int && self.c.chance(50) {
                    let x = self.gen_expr(&Ty::Int, scope, d);
                    let dv = self.c.range(1, 9) as i64;
                    self.feat("divmod");
                    Expr::Prim("divmod", vec![x, Expr::Int(BigInt::from(dv))])
                } else {
                    let x = self.gen_expr(a, scope, d);
                    let y = self.gen_expr(b, scope, d);
                    Expr::Prim("c", vec![x, y])
                }
            }
            Ty::Fun(_, _) => self.gen_fun(ty, scope, d),
        }
    }

    fn gen_fun(&mut self, fty: &Ty, scope: &Scope, depth: usize) -> Expr {
        let Ty::Fun(args, ret) = fty else {
            return Expr::Nil;
        };
        // variables of that type
        let vs: Vec<String> = self.vars_of(scope, fty).iter().map(|v| v.0.clone()).collect();
        if !vs.is_empty() && self.c.chance(90) {
            return Expr::Var(vs[self.c.pick(vs.len())].clone());
        }
        // named non-inline function used as a value
        let cands: Vec<String> = self
            .fns
            .iter()
            .filter(|f| !f.inline && f.rest.is_none() && !f.recursive && f.ret == **ret && f.params.len() == args.len() && f.params.iter().zip(args.iter()).all(|(p, t)| is_sub(t, &pat_ty(p))))
            .map(|f| f.name.clone())
            .collect();
        if !cands.is_empty() && self.c.chance(110) && self.cfg.allow_lambda && !self.in_defconst {
            self.feat("function-name-as-value");
            self.fun_value_use = true;
            return Expr::FunRef(cands[self.c.pick(cands.len())].clone());
        }
        // lambda with captures
        self.feat("lambda");
        self.fun_value_use = true;
        let visible: Vec<(String, Ty)> = {
            let mut seen = BTreeSet::new();
            scope.iter().rev().filter(|v| seen.insert(v.0.clone())).cloned().collect()
        };
        let ncap = if visible.is_empty() { 0 } else { self.c.range(0, visible.len().min(3)) };
        let mut caps: Vec<(String, Ty)> = vec![];
        for _ in 0..ncap {
            let v = visible[self.c.pick(visible.len())].clone();
            if !caps.iter().any(|c| c.0 == v.0) {
                caps.push(v);
            }
        }
        if !caps.is_empty() {
            self.feat("lambda-captures");
        }
        let params: Vec<Pat> = args
            .iter()
            .map(|t| {
                if self.c.chance(30) {
                    if let Ty::Pair(a, b) = t {
                        self.feat("destructured-param");
                        return Pat::Cons(Box::new(Pat::Name(self.fresh("X"), (**a).clone())), Box::new(Pat::Name(self.fresh("X"), (**b).clone())));
                    }
                }
                Pat::Name(self.fresh("X"), t.clone())
            })
            .collect();
        let mut inner: Scope = caps.clone();
        for p in &params {
            pat_names(p, &mut inner);
        }
        let body = self.gen_expr(ret, &inner, depth.min(3));
        Expr::Lambda {
            caps: caps.into_iter().map(|c| c.0).collect(),
            params: list_pat(params, Pat::Nil),
            body: Box::new(body),
        }
    }

    fn let_name(&mut self, scope: &Scope) -> String {
        // small pool => shadowing of earlier lets happens; occasionally shadow a visible variable
        if !scope.is_empty() && self.c.chance(40) {
            self.feat("shadowing");
            let i = self.c.pick(scope.len());
            return scope[i].0.clone();
        }
        let n = format!("L{}", self.c.pick(5));
        self.all_names.insert(n.as_bytes().to_vec());
        n
    }

    /// the value of a let/assign binding: now and then itself a binding form (binding forms
    /// nested in binding values go through their own renaming and hoisting paths)
    fn gen_binding_value(&mut self, t: &Ty, scope: &Scope, depth: usize) -> Expr {
        // (one level only: compile time grows steeply with the nesting of binding forms -- a 700-byte
        // program with four levels takes the compiler seconds -- and the per-case budget is finite)
        if depth >= 1 && self.let_depth + 1 < self.let_limit && self.let_depth <= 1 && !matches!(t, Ty::Fun(_, _)) && self.c.chance(36) {
            self.feat("binding-form-in-binding-value");
            self.let_depth += 1;
            let e = if self.cfg.allow_assign && self.c.chance(100) { self.gen_assign(t, scope, depth) } else if self.cfg.allow_let { self.gen_let(t, scope, depth) } else { self.gen_expr(t, scope, depth) };
            self.let_depth -= 1;
            return e;
        }
        self.gen_expr(t, scope, depth)
    }

    /// make the body of a binding form depend on one of the names it binds (otherwise a wrong
    /// resolution of that name is invisible)
    fn mix_in_binding(&mut self, ty: &Ty, bound: &[(String, Ty)], body: Expr) -> Expr {
        if bound.is_empty() || !self.c.chance(110) {
            return body;
        }
        let (name, vt) = bound[self.c.pick(bound.len())].clone();
        let numeric = |t: &Ty| matches!(t, Ty::Int | Ty::Nat);
        match ty {
            Ty::Int if numeric(&vt) => {
                self.feat("body-uses-binding");
                Expr::Prim("+", vec![Expr::Var(name), body])
            }
            Ty::Atom if numeric(&vt) || vt == Ty::Atom => {
                self.feat("body-uses-binding");
                Expr::Prim("concat", vec![Expr::Var(name), body])
            }
            Ty::Any if !matches!(vt, Ty::Fun(_, _)) => {
                self.feat("body-uses-binding");
                Expr::Prim("c", vec![Expr::Var(name), body])
            }
            _ => body,
        }
    }

    fn gen_let(&mut self, ty: &Ty, scope: &Scope, depth: usize) -> Expr {
        let star = self.c.chance(128);
        self.feat(if star { "let*" } else { "let" });
        let n = self.c.range(1, 3);
        let mut binds = vec![];
        let mut inner = scope.clone();
        let mut new_names: Vec<(String, Ty)> = vec![];
        for _ in 0..n {
            let t = if self.cfg.allow_lambda && self.c.chance(25) { Ty::Fun(vec![Ty::Int], Box::new(Ty::Int)) } else { self.gen_leaf_ty() };
            let mut name = self.let_name(scope);
            // names within one parallel let must be distinct
            while new_names.iter().any(|x| x.0 == name) {
                name = self.fresh("L");
            }
            let vis = if star { inner.clone() } else { scope.clone() };
            let e = self.gen_binding_value(&t, &vis, depth - 1);
            binds.push((name.clone(), e));
            new_names.push((name.clone(), t.clone()));
            if star {
                inner.push((name, t));
            }
        }
        if !star {
            inner.extend(new_names.clone());
        }
        let body = self.gen_expr(ty, &inner, depth - 1);
        let body = self.mix_in_binding(ty, &new_names, body);
        Expr::Let {
            star,
            binds,
            body: Box::new(body),
        }
    }

    fn gen_assign(&mut self, ty: &Ty, scope: &Scope, depth: usize) -> Expr {
        let mut hint = self.c.weighted(&[6, 2, 2]) as u8;
        // assign-inline copies a binding's expression to every use: nested inside other binding
        // forms (or with binding forms inside it) the emitted code grows exponentially and a
        // compile takes minutes.  That growth is what "inline" means, not a defect, so the
        // generator keeps assign-inline at the outermost binding level and flat inside.
        if hint == 1 && self.let_depth > 1 {
            hint = 0;
        }
        let saved_let_depth = self.let_depth;
        if hint == 1 {
            self.let_depth = self.let_limit.max(self.let_depth);
        }
        if hint == 2 {
            self.fun_value_use = true;
        }
        self.feat(match hint {
            0 => "assign",
            1 => "assign-inline",
            _ => "assign-lambda",
        });
        let n = self.c.range(1, 4);
        let mut inner = scope.clone();
        let mut binds: Vec<(Pat, Expr)> = vec![];
        for _ in 0..n {
            let (pat, t) = if self.c.chance(70) {
                self.feat("assign-destructuring");
                let ta = self.gen_leaf_ty();
                let tb = self.gen_leaf_ty();
                let p = Pat::Cons(Box::new(Pat::Name(self.fresh("V"), ta.clone())), Box::new(Pat::Name(self.fresh("V"), tb.clone())));
                (p, Ty::Pair(Box::new(ta), Box::new(tb)))
            } else if !self.cfg.classic_subset && self.c.chance(40) {
                // list-shaped patterns of 2..4 elements, an element may itself be a 2-list,
                // proper or dotted: (a (b c) d), (a b . c), ...
                self.feat("assign-destructuring");
                self.feat("assign-list-pattern");
                let k = self.c.range(2, 4);
                let mut items = vec![];
                for _ in 0..k {
                    if self.c.chance(60) {
                        let t1 = self.gen_leaf_ty();
                        let t2 = self.gen_leaf_ty();
                        items.push(list_pat(vec![Pat::Name(self.fresh("V"), t1), Pat::Name(self.fresh("V"), t2)], Pat::Nil));
                    } else {
                        let t1 = self.gen_leaf_ty();
                        items.push(Pat::Name(self.fresh("V"), t1));
                    }
                }
                let tail = if self.c.chance(70) {
                    let t1 = self.gen_leaf_ty();
                    Pat::Name(self.fresh("V"), t1)
                } else {
                    Pat::Nil
                };
                let p = list_pat(items, tail);
                let t = pat_ty(&p);
                (p, t)
            } else {
                let t = self.gen_leaf_ty();
                (Pat::Name(self.fresh("V"), t.clone()), t)
            };
            let e = self.gen_binding_value(&t, &inner, depth - 1);
            pat_names(&pat, &mut inner);
            binds.push((pat, e));
        }
        let body = self.gen_expr(ty, &inner, depth - 1);
        let bound: Vec<(String, Ty)> = inner[scope.len()..].to_vec();
        let body = self.mix_in_binding(ty, &bound, body);
        self.let_depth = saved_let_depth;
        // permute the source order (dependencies may point forward)
        let mut idx: Vec<usize> = (0..binds.len()).collect();
        for i in (1..idx.len()).rev() {
            let j = self.c.pick(i + 1);
            idx.swap(i, j);
        }
        if idx.iter().enumerate().any(|(i, j)| i != *j) {
            self.feat("assign-out-of-order");
        }
        // idx[k] = which generated binding sits at source position k
        let src: Vec<(Pat, Expr)> = idx.iter().map(|j| binds[*j].clone()).collect();
        // order: source positions in dependency (generation) order
        let mut order = vec![0usize; binds.len()];
        for (pos, j) in idx.iter().enumerate() {
            order[*j] = pos;
        }
        Expr::Assign {
            hint,
            binds: src,
            order,
            body: Box::new(body),
        }
    }

    fn gen_call(&mut self, ty: &Ty, scope: &Scope, depth: usize) -> Option<Expr> {
        let in_defconst = self.in_defconst;
        let cands: Vec<FnSig> = self.fns.iter().filter(|f| is_sub(&f.ret, ty) && !(in_defconst && f.fun_values)).cloned().collect();
        if cands.is_empty() {
            return None;
        }
        let f = cands[self.c.pick(cands.len())].clone();
        Some(self.call_of(&f, scope, depth))
    }

    pub fn call_of(&mut self, f: &FnSig, scope: &Scope, depth: usize) -> Expr {
        self.feat(if f.inline { "inline-call" } else { "defun-call" });
        if f.fun_values {
            self.fun_value_use = true;
        }
        let d = depth.saturating_sub(1);
        // now and then a call whose operands are all compile-time constants (what the cl23+
        // optimiser evaluates at compile time), a constant &rest tail included
        let constant_call = !f.recursive && self.c.chance(36);
        if constant_call {
            self.feat("call-with-constant-operands");
        }
        let d = if constant_call { 0 } else { d };
        let empty_scope: Scope = vec![];
        let scope: &Scope = if constant_call { &empty_scope } else { scope };
        let mut args: Vec<Expr> = f.params.iter().map(|p| self.gen_expr(&pat_ty(p), scope, d)).collect();
        let mut rest = None;
        if let Some((_, rt)) = &f.rest {
            match if self.cfg.allow_rest { self.c.pick(3) } else { self.c.pick(1) * 0 + [0usize, 2][self.c.pick(2)] } {
                0 => {
                    // extra positional args are collected by the rest parameter
                    let k = self.c.range(0, 3);
                    for _ in 0..k {
                        args.push(self.gen_expr(&Ty::Int, scope, d));
                    }
                }
                1 => {
                    self.feat("&rest-call");
                    rest = Some(Box::new(self.gen_expr(rt, scope, d)));
                }
                _ => {}
            }
        } else if self.cfg.allow_rest && !args.is_empty() && self.c.chance(30) {
            // supply the last j positional parameters through a &rest tail
            self.feat("&rest-call");
            self.feat("&rest-supplies-positional");
            let j = self.c.range(1, args.len().min(3));
            let tail_args: Vec<Expr> = args.split_off(args.len() - j);
            rest = Some(Box::new(Expr::List(tail_args)));
        }
        Expr::Call {
            f: f.name.clone(),
            args,
            rest,
        }
    }

    fn gen_macro_call(&mut self, ty: &Ty, scope: &Scope, depth: usize) -> Option<Expr> {
        if self.macs.is_empty() {
            return None;
        }
        let d = depth - 1;
        let m = self.macs[self.c.pick(self.macs.len())].clone();
        let (ok, args): (bool, Vec<Expr>) = match &m.kind {
            MacroKind::BinOp(op) => {
                let intop = *op != "c";
                if intop && is_sub(&Ty::Int, ty) {
                    (true, vec![self.gen_expr(&Ty::Int, scope, d), self.gen_expr(&Ty::Int, scope, d)])
                } else if !intop && *ty == Ty::Any {
                    (true, vec![self.gen_expr(&Ty::Any, scope, d), self.gen_expr(&Ty::Any, scope, d)])
                } else {
                    (false, vec![])
                }
            }
            MacroKind::IfLike => (true, vec![self.gen_cond(scope, d), self.gen_expr(ty, scope, d), self.gen_expr(ty, scope, d)]),
            MacroKind::Pairlist => {
                if *ty == Ty::Any || *ty == Ty::List(Box::new(Ty::Int)) {
                    (true, vec![self.gen_expr(&Ty::Int, scope, d), self.gen_expr(&Ty::Int, scope, d)])
                } else {
                    (false, vec![])
                }
            }
            MacroKind::Twice(_) => {
                if is_sub(&Ty::Int, ty) {
                    (true, vec![self.gen_expr(&Ty::Int, scope, d)])
                } else {
                    (false, vec![])
                }
            }
            MacroKind::CallFn(fname) => {
                let f = self.fns.iter().find(|f| &f.name == fname).cloned();
                match f {
                    Some(f) if is_sub(&f.ret, ty) && f.params.len() == 1 => (true, vec![self.gen_expr(&pat_ty(&f.params[0]), scope, d)]),
                    _ => (false, vec![]),
                }
            }
        };
        if !ok {
            return None;
        }
        // a defmacro receives its operands as values and returns code: a string operand comes
        // back as a bare word, so a string that reads as something else ("0x41") changes
        // meaning -- a limit of the old macro system the language documents (hence defmac), kept
        // out of the operands by construction (only top-level operands; nested ones are quoted
        // inside larger expressions that never reach the reader as bare words)
        let args: Vec<Expr> = args
            .into_iter()
            .map(|a| match a {
                Expr::Str(b) if b.starts_with(b"0x") || b.first().map(|c| c.is_ascii_digit() || *c == b'-').unwrap_or(false) => {
                    self.feat("excluded:number-like-string-as-macro-operand");
                    Expr::Int(BigInt::from(7))
                }
                other => other,
            })
            .collect();
        self.feat("macro-call");
        Some(Expr::MacroCall { name: m.name.clone(), args })
    }

    // -------- helpers and program

    fn gen_ret_ty(&mut self) -> Ty {
        match self.c.weighted(&[10, 3, 3, 3, 2, if self.cfg.allow_lambda { 2 } else { 0 }]) {
            0 => Ty::Int,
            1 => Ty::Atom,
            2 => Ty::Any,
            3 => Ty::List(Box::new(Ty::Int)),
            4 => Ty::Pair(Box::new(Ty::Int), Box::new(Ty::Int)),
            _ => Ty::Fun(vec![Ty::Int], Box::new(Ty::Int)),
        }
    }

    pub fn gen_helper(&mut self) -> Helper {
        let k = self.c.weighted(&[
            10,
            8,
            3,
            if self.cfg.no_defconst { 0 } else if self.cfg.classic_subset { 2 } else { 3 },
            if self.cfg.allow_macros { 4 } else { 0 },
        ]);
        match k {
            0 | 1 => {
                let inline = k == 1;
                let name = self.fresh(if inline { "inl_" } else { "fn_" });
                let recursive = !inline && self.c.chance(70);
                let ret = if recursive { Ty::Int } else { self.gen_ret_ty() };
                let (mut params, rest) = self.gen_param_list("A", if inline { 6 } else { self.cfg.max_params.min(12) }, self.cfg.allow_rest || self.cfg.classic_subset);
                let body;
                let outer_fun_value_use = self.fun_value_use;
                self.fun_value_use = false;
                if recursive {
                    self.feat("recursive-function");
                    // template: first parameter drives the recursion
                    let by_list = self.c.chance(128);
                    let drv = self.fresh("A");
                    let drv_ty = if by_list { Ty::List(Box::new(Ty::Int)) } else { Ty::Nat };
                    params.insert(0, Pat::Name(drv.clone(), drv_ty.clone()));
                    let mut scope: Scope = vec![];
                    for p in &params {
                        pat_names(p, &mut scope);
                    }
                    if let Some(r) = &rest {
                        scope.push(r.clone());
                    }
                    let base = self.gen_expr(&Ty::Int, &scope, 1);
                    let other_args: Vec<Expr> = params[1..].iter().map(|p| self.gen_expr(&pat_ty(p), &scope, 1)).collect();
                    let extra = self.gen_expr(&Ty::Int, &scope, 1);
                    let sig = FnSig {
                        name: name.clone(),
                        inline,
                        params: params.clone(),
                        rest: rest.clone(),
                        ret: ret.clone(),
                        recursive: true,
                        fun_values: self.fun_value_use,
                    };
                    let (cond, step_arg, elem) = if by_list {
                        (
                            Expr::Prim("l", vec![Expr::Var(drv.clone())]),
                            Expr::Prim("r", vec![Expr::Var(drv.clone())]),
                            Expr::Prim("f", vec![Expr::Var(drv.clone())]),
                        )
                    } else {
                        (
                            Expr::Prim(">", vec![Expr::Var(drv.clone()), Expr::Int(BigInt::from(0))]),
                            Expr::Prim("-", vec![Expr::Var(drv.clone()), Expr::Int(BigInt::from(1))]),
                            Expr::Var(drv.clone()),
                        )
                    };
                    let mut args = vec![step_arg];
                    args.extend(other_args);
                    let rec = Expr::Call {
                        f: sig.name.clone(),
                        args,
                        rest: None,
                    };
                    let op = *self.c.choose(&["+", "-", "logxor"]);
                    body = Expr::If(Box::new(cond), Box::new(Expr::Prim(op, vec![elem, rec, extra])), Box::new(base));
                    self.fns.push(sig);
                } else {
                    let mut scope: Scope = vec![];
                    for p in &params {
                        pat_names(p, &mut scope);
                    }
                    if let Some(r) = &rest {
                        scope.push(r.clone());
                    }
                    let d = self.c.range(1, self.cfg.max_depth);
                    self.let_limit = if scope.len() > 8 { 1 } else if scope.len() > 4 { 2 } else { 3 };
                    let accessor: Vec<String> = self.vars_of(&scope, &ret).iter().map(|v| v.0.clone()).collect();
                    body = if !accessor.is_empty() && self.c.chance(22) {
                        // an accessor: the function's code is a bare environment path
                        self.feat("accessor-function");
                        Expr::Var(accessor[self.c.pick(accessor.len())].clone())
                    } else {
                        self.gen_expr(&ret, &scope, d)
                    };
                    self.let_limit = 3;
                    self.fns.push(FnSig {
                        name: name.clone(),
                        inline,
                        params: params.clone(),
                        rest: rest.clone(),
                        ret: ret.clone(),
                        recursive: false,
                        fun_values: self.fun_value_use,
                    });
                }
                self.fun_value_use = outer_fun_value_use;
                self.feat(if inline { "defun-inline" } else { "defun" });
                Helper::Defun {
                    name,
                    inline,
                    params: Self::full_pat(&params, &rest),
                    body,
                    ret,
                }
            }
            2 => {
                let name = self.fresh("K_");
                self.feat("defconstant");
                let (value, ty) = match self.c.pick(3) {
                    0 => (int(self.c.range(0, 3000) as i64 - 500), Ty::Int),
                    1 => (V::A(self.c.choose(STRS).as_bytes().to_vec()), Ty::Atom),
                    _ => {
                        let n = self.c.range(0, 4);
                        (list((0..n).map(|_| int(self.c.range(1, 99) as i64)).collect()), Ty::List(Box::new(Ty::Int)))
                    }
                };
                // an atom constant whose bytes spell a name would be looked up as a name
                self.consts.push((name.clone(), ty.clone()));
                Helper::Defconstant { name, value, ty }
            }
            3 => {
                let name = self.fresh("K_");
                self.feat("defconst");
                let ty = self.gen_leaf_ty();
                // closed expression: constants and non-recursive functions only
                self.in_defconst = true;
                let expr = self.gen_expr(&ty, &vec![], 2);
                self.in_defconst = false;
                self.consts.push((name.clone(), ty.clone()));
                Helper::Defconst { name, expr, ty }
            }
            _ => {
                let name = self.fresh("mac_");
                self.feat("defmacro");
                let unary_fns: Vec<String> = self.fns.iter().filter(|f| f.params.len() == 1 && f.rest.is_none() && !f.recursive).map(|f| f.name.clone()).collect();
                let binmacs: Vec<String> = self.macs.iter().filter(|m| matches!(m.kind, MacroKind::BinOp(op) if op != "c")).map(|m| m.name.clone()).collect();
                let kind = match self.c.pick(5) {
                    0 => MacroKind::BinOp(*self.c.choose(&["+", "-", "*", "logxor", "c"])),
                    1 => MacroKind::IfLike,
                    2 => MacroKind::Pairlist,
                    3 if !binmacs.is_empty() => MacroKind::Twice(binmacs[self.c.pick(binmacs.len())].clone()),
                    4 if !unary_fns.is_empty() => MacroKind::CallFn(unary_fns[self.c.pick(unary_fns.len())].clone()),
                    _ => MacroKind::BinOp("+"),
                };
                let nparams = match kind {
                    MacroKind::BinOp(_) | MacroKind::Pairlist => 2,
                    MacroKind::IfLike => 3,
                    _ => 1,
                };
                self.macs.push(MacSig {
                    name: name.clone(),
                    kind: kind.clone(),
                });
                Helper::Defmacro { name, nparams, kind }
            }
        }
    }

    pub fn gen_program(&mut self) -> Program {
        let prefix = if self.cfg.lowercase { "p" } else { "P" };
        let (items, rest) = self.gen_param_list(prefix, self.cfg.max_params, true);
        let nh = self.c.range(0, self.cfg.max_helpers);
        let mut helpers = vec![];
        for _ in 0..nh {
            helpers.push(self.gen_helper());
        }
        let mut scope: Scope = vec![];
        for p in &items {
            pat_names(p, &mut scope);
        }
        if let Some(r) = &rest {
            scope.push(r.clone());
        }
        let ret = self.gen_ret_ty_nofun();
        let d = self.c.range(1, self.cfg.max_depth);
        self.let_limit = if scope.len() > 8 { 1 } else if scope.len() > 4 { 2 } else { 3 };
        let mut body = self.gen_expr(&ret, &scope, d);
        self.let_limit = 3;
        // nested mod applied with a
        if self.cfg.allow_modexpr && self.c.chance(20) {
            self.feat("nested-mod");
            let inner_name = self.fresh("N");
            let inner = Program {
                params: list_pat(vec![Pat::Name(inner_name.clone(), Ty::Int)], Pat::Nil),
                helpers: vec![],
                body: Expr::Prim("+", vec![Expr::Var(inner_name), Expr::Int(BigInt::from(self.c.range(1, 9)))]),
            };
            let arg = self.gen_expr(&Ty::Int, &scope, 1);
            let applied = Expr::Apply(Box::new(Expr::ModExpr(Box::new(inner))), Box::new(Expr::List(vec![arg])));
            body = Expr::Prim("c", vec![applied, body]);
        }
        Program {
            params: Self::full_pat(&items, &rest),
            helpers,
            body,
        }
    }

    fn gen_ret_ty_nofun(&mut self) -> Ty {
        match self.c.weighted(&[8, 3, 4, 3, 2]) {
            0 => Ty::Int,
            1 => Ty::Atom,
            2 => Ty::Any,
            3 => Ty::List(Box::new(Ty::Int)),
            _ => Ty::Pair(Box::new(Ty::Int), Box::new(Ty::Int)),
        }
    }
}

// ---------------------------------------------------------------------------------------------
// argument generator

pub fn gen_value_of(c: &mut Choices, ty: &Ty) -> V {
    match ty {
        Ty::Nat => int(c.range(0, 7) as i64),
        Ty::Int => match c.weighted(&[8, 4, 2, 1]) {
            0 => int(c.range(0, 20) as i64),
            1 => int(c.range(0, 4000) as i64 - 2000),
            2 => {
                let k = c.range(3, 9);
                let b = c.bytes(k);
                V::A(int_bytes_big(&BigInt::from_signed_bytes_be(&b)))
            }
            _ => {
                let k = c.range(9, 40);
                let b = c.bytes(k);
                V::A(int_bytes_big(&BigInt::from_signed_bytes_be(&b)))
            }
        },
        Ty::Atom => {
            if c.chance(128) {
                gen_value_of(c, &Ty::Int)
            } else {
                V::A(gen_atom(c, false).0)
            }
        }
        Ty::Any => {
            if c.chance(128) {
                gen_value_of(c, &Ty::Atom)
            } else {
                gen_tree(c, 8, &mut |c| gen_atom(c, false).0).0
            }
        }
        Ty::List(t) => {
            let n = c.range(0, 5);
            list((0..n).map(|_| gen_value_of(c, t)).collect())
        }
        Ty::Pair(a, b) => cons(gen_value_of(c, a), gen_value_of(c, b)),
        Ty::Fun(_, _) => nil(),
    }
}

/// argument tree fitting a parameter pattern (with low probability an ill-fitting one)
pub fn gen_args_for(c: &mut Choices, p: &Pat) -> V {
    if c.chance(6) {
        return gen_tree(c, 6, &mut |c| gen_atom(c, false).0).0;
    }
    fn go(c: &mut Choices, p: &Pat) -> V {
        match p {
            Pat::Nil => {
                if c.chance(20) {
                    int(c.range(1, 9) as i64)
                } else {
                    nil()
                }
            }
            Pat::Name(_, t) => gen_value_of(c, t),
            Pat::At(_, p) => go(c, p),
            Pat::Cons(a, b) => cons(go(c, a), go(c, b)),
        }
    }
    go(c, p)
}

pub fn rc_helper<T>(x: T) -> Rc<T> {
    Rc::new(x)
}
