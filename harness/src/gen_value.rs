//! G1: CLVM values (DESIGN §2.2).  An owned tree type independent of both the crate under
//! test and clvmr, with its own serializer and tree hash (extra, independent oracles).

use crate::choices::Choices;
use clvmr::allocator::{Allocator, NodePtr, SExp as ASExp};
use sha2::{Digest, Sha256};
use std::rc::Rc;

#[derive(Clone, PartialEq, Eq, Hash, Debug)]
pub enum V {
    A(Vec<u8>),
    P(Rc<V>, Rc<V>),
}

pub fn nil() -> V {
    V::A(vec![])
}
pub fn atom(b: &[u8]) -> V {
    V::A(b.to_vec())
}
pub fn cons(a: V, b: V) -> V {
    V::P(Rc::new(a), Rc::new(b))
}
pub fn list(items: Vec<V>) -> V {
    list_tail(items, nil())
}
pub fn list_tail(items: Vec<V>, tail: V) -> V {
    let mut r = tail;
    for i in items.into_iter().rev() {
        r = cons(i, r);
    }
    r
}
/// minimal two's complement encoding of a small integer (0 -> nil)
pub fn int(i: i64) -> V {
    V::A(int_bytes(i))
}
pub fn int_bytes(i: i64) -> Vec<u8> {
    if i == 0 {
        return vec![];
    }
    let mut b = i.to_be_bytes().to_vec();
    while b.len() > 1 && ((b[0] == 0 && b[1] & 0x80 == 0) || (b[0] == 0xff && b[1] & 0x80 != 0)) {
        b.remove(0);
    }
    b
}

impl V {
    pub fn to_node(&self, a: &mut Allocator) -> NodePtr {
        match self {
            V::A(b) => {
                if b.is_empty() {
                    NodePtr::NIL
                } else {
                    a.new_atom(b).expect("new_atom")
                }
            }
            V::P(l, r) => {
                let ln = l.to_node(a);
                let rn = r.to_node(a);
                a.new_pair(ln, rn).expect("new_pair")
            }
        }
    }
    pub fn from_node(a: &Allocator, n: NodePtr) -> V {
        match a.sexp(n) {
            ASExp::Atom => V::A(a.atom(n).as_ref().to_vec()),
            ASExp::Pair(l, r) => V::P(Rc::new(V::from_node(a, l)), Rc::new(V::from_node(a, r))),
        }
    }
    pub fn is_nil(&self) -> bool {
        matches!(self, V::A(b) if b.is_empty())
    }
    pub fn nodes(&self) -> usize {
        match self {
            V::A(_) => 1,
            V::P(l, r) => 1 + l.nodes() + r.nodes(),
        }
    }
    pub fn atoms<'a>(&'a self, out: &mut Vec<&'a Vec<u8>>) {
        match self {
            V::A(b) => out.push(b),
            V::P(l, r) => {
                l.atoms(out);
                r.atoms(out);
            }
        }
    }
    /// independent implementation of the CLVM serialization format
    pub fn ser_into(&self, out: &mut Vec<u8>) {
        match self {
            V::A(b) => {
                let n = b.len() as u64;
                if n == 0 {
                    out.push(0x80);
                } else if n == 1 && b[0] < 0x80 {
                    out.push(b[0]);
                } else {
                    if n < 0x40 {
                        out.push(0x80 | n as u8);
                    } else if n < 0x2000 {
                        out.push(0xc0 | (n >> 8) as u8);
                        out.push(n as u8);
                    } else if n < 0x10_0000 {
                        out.push(0xe0 | (n >> 16) as u8);
                        out.push((n >> 8) as u8);
                        out.push(n as u8);
                    } else if n < 0x800_0000 {
                        out.push(0xf0 | (n >> 24) as u8);
                        out.push((n >> 16) as u8);
                        out.push((n >> 8) as u8);
                        out.push(n as u8);
                    } else {
                        out.push(0xf8 | (n >> 32) as u8);
                        out.push((n >> 24) as u8);
                        out.push((n >> 16) as u8);
                        out.push((n >> 8) as u8);
                        out.push(n as u8);
                    }
                    out.extend_from_slice(b);
                }
            }
            V::P(l, r) => {
                out.push(0xff);
                l.ser_into(out);
                r.ser_into(out);
            }
        }
    }
    pub fn ser(&self) -> Vec<u8> {
        let mut v = vec![];
        self.ser_into(&mut v);
        v
    }
    /// independent tree hash
    pub fn treehash(&self) -> Vec<u8> {
        match self {
            V::A(b) => {
                let mut h = Sha256::new();
                h.update([1u8]);
                h.update(b);
                h.finalize().to_vec()
            }
            V::P(l, r) => {
                let mut h = Sha256::new();
                h.update([2u8]);
                h.update(l.treehash());
                h.update(r.treehash());
                h.finalize().to_vec()
            }
        }
    }
    /// readable, unambiguous: atoms as 0x.. (nil as ()), lists with dots where improper
    pub fn show(&self) -> String {
        match self {
            V::A(b) => {
                if b.is_empty() {
                    "()".to_string()
                } else if b.len() > 40 {
                    format!("0x{}..[{} bytes]", hex::encode(&b[..16]), b.len())
                } else {
                    format!("0x{}", hex::encode(b))
                }
            }
            V::P(_, _) => {
                let mut s = String::from("(");
                let mut cur = self;
                let mut first = true;
                loop {
                    match cur {
                        V::P(l, r) => {
                            if !first {
                                s.push(' ');
                            }
                            first = false;
                            s.push_str(&l.show());
                            cur = r;
                        }
                        V::A(b) => {
                            if !b.is_empty() {
                                s.push_str(" . ");
                                s.push_str(&cur.show());
                            }
                            break;
                        }
                    }
                }
                s.push(')');
                s
            }
        }
    }
    pub fn first(&self) -> Option<&V> {
        match self {
            V::P(l, _) => Some(l),
            _ => None,
        }
    }
    pub fn rest(&self) -> Option<&V> {
        match self {
            V::P(_, r) => Some(r),
            _ => None,
        }
    }
}

pub const KEYWORD_TEXTS: &[&str] = &[
    "q", "a", "i", "c", "f", "r", "l", "x", "=", ">s", "sha256", "substr", "strlen", "concat", "+", "-", "*", "/",
    "divmod", ">", "ash", "lsh", "logand", "logior", "logxor", "lognot", "point_add", "pubkey_for_exp", "not",
    "any", "all", "softfork", "coinid", "modpow", "%", "keccak256", "mod", "defun", "list", "if", "qq", "unquote",
    "quote", "com", "opt", "lambda", "@", "&rest",
];

const HOSTILE: &[u8] = b" \"'\\().;#";

/// Atom classes of §2.2.  Returns the bytes and a class label.  `big` allows multi-KiB atoms.
pub fn gen_atom(c: &mut Choices, big: bool) -> (Vec<u8>, &'static str) {
    let k = c.weighted(&[
        6, // 0 empty
        8, // 1 single <0x80
        6, // 2 single >=0x80
        4, // 3 0x00
        6, // 4 zero-prefixed
        6, // 5 redundant sign extension
        6, // 6 canonical negative
        8, // 7 printable len 1..2
        10, // 8 printable len 3+ incl. hostile chars
        4, // 9 digits only
        3, // 10 0x look-alike
        5, // 11 keyword text
        4, // 12 32-byte hash
        5, // 13 length class edges
        8, // 14 random bytes short
        4, // 15 path-like
        if big { 2 } else { 0 }, // 16 multi-KiB
        3, // 17 negative-looking / zero padded decimal text
    ]);
    match k {
        0 => (vec![], "atom:empty"),
        1 => (vec![c.u8() & 0x7f], "atom:single<0x80"),
        2 => (vec![c.u8() | 0x80], "atom:single>=0x80"),
        3 => (vec![0], "atom:0x00"),
        4 => {
            let n = c.range(1, 4);
            let mut v = vec![0u8; c.range(1, 2)];
            v.extend(c.bytes(n));
            (v, "atom:zero-prefixed")
        }
        5 => {
            let n = c.range(0, 3);
            if c.chance(128) {
                let mut v = vec![0xff, 0x80 | c.u8()];
                v.extend(c.bytes(n));
                (v, "atom:redundant-sign")
            } else {
                let mut v = vec![0x00, 0x7f & c.u8()];
                v.extend(c.bytes(n));
                (v, "atom:redundant-sign")
            }
        }
        6 => {
            let n = c.range(0, 4);
            let mut v = vec![0x80 | c.u8()];
            v.extend(c.bytes(n));
            if v.len() > 1 && v[0] == 0xff && v[1] & 0x80 != 0 {
                v[0] = 0xfe;
            }
            (v, "atom:negative")
        }
        7 => {
            let n = c.range(1, 2);
            let v: Vec<u8> = (0..n).map(|_| 32 + (c.pick(95) as u8)).collect();
            (v, "atom:printable-short")
        }
        8 => {
            let n = c.range(3, 12);
            let v: Vec<u8> = (0..n)
                .map(|_| {
                    if c.chance(64) {
                        *c.choose(HOSTILE)
                    } else {
                        32 + (c.pick(95) as u8)
                    }
                })
                .collect();
            (v, "atom:printable-long")
        }
        9 => {
            let n = c.range(1, 8);
            let v: Vec<u8> = (0..n).map(|_| b'0' + c.pick(10) as u8).collect();
            (v, "atom:digits")
        }
        10 => {
            let n = c.range(0, 6);
            let mut v = b"0x".to_vec();
            v.extend((0..n).map(|_| *c.choose(b"0123456789abcdefg")));
            (v, "atom:0x-lookalike")
        }
        11 => (c.choose(KEYWORD_TEXTS).as_bytes().to_vec(), "atom:keyword-text"),
        12 => (c.bytes(32), "atom:hash32"),
        13 => {
            let n = *c.choose(&[0x3fusize, 0x40, 0x41, 0x7f, 0x80, 0xff, 0x100, 0x1fff, 0x2000, 0x2001]);
            let fill = c.u8();
            let mut v = vec![fill; n];
            v[0] = c.u8();
            (v, "atom:len-edge")
        }
        14 => {
            let n = c.range(2, 9);
            (c.bytes(n), "atom:random")
        }
        15 => {
            // path-like: all-ones, top bit set, zero padded
            let n = c.range(1, 9);
            let mut v = match c.pick(3) {
                0 => vec![0xffu8; n],
                1 => {
                    let mut v = c.bytes(n);
                    v[0] |= 0x80;
                    v
                }
                _ => {
                    let mut v = vec![0u8; c.range(1, 3)];
                    v.extend(c.bytes(n));
                    v
                }
            };
            if v.is_empty() {
                v.push(1);
            }
            (v, "atom:path-like")
        }
        16 => {
            let n = *c.choose(&[3000usize, 0x2000, 20000, 70000]);
            let fill = c.u8();
            (vec![fill; n], "atom:multi-KiB")
        }
        _ => {
            let n = c.range(1, 6);
            let mut v = if c.chance(128) { b"-".to_vec() } else { b"00".to_vec() };
            v.extend((0..n).map(|_| b'0' + c.pick(10) as u8));
            (v, "atom:decimal-text")
        }
    }
}

/// Tree shapes of §2.2.  `leaf` generates the atoms.
pub fn gen_tree(c: &mut Choices, max_nodes: usize, leaf: &mut dyn FnMut(&mut Choices) -> Vec<u8>) -> (V, &'static str) {
    let k = c.weighted(&[10, 12, 6, 4, 4, 5, 14]);
    match k {
        0 => (V::A(leaf(c)), "shape:atom"),
        1 => {
            let n = c.range(0, (max_nodes / 2).clamp(1, 12));
            (list((0..n).map(|_| V::A(leaf(c))).collect()), "shape:proper-list")
        }
        2 => {
            let n = c.range(1, (max_nodes / 2).clamp(1, 8));
            let items: Vec<V> = (0..n).map(|_| V::A(leaf(c))).collect();
            let tail = V::A(leaf(c));
            (list_tail(items, tail), "shape:improper-list")
        }
        3 => {
            let d = c.range(1, max_nodes.clamp(1, 300));
            let a = V::A(leaf(c));
            let mut t = V::A(leaf(c));
            for _ in 0..d {
                t = cons(a.clone(), t);
            }
            (t, "shape:right-spine")
        }
        4 => {
            let d = c.range(1, max_nodes.clamp(1, 300));
            let a = V::A(leaf(c));
            let mut t = V::A(leaf(c));
            for _ in 0..d {
                t = cons(t, a.clone());
            }
            (t, "shape:left-spine")
        }
        5 => {
            let d = c.range(1, 5);
            fn bal(c: &mut Choices, d: usize, leaf: &mut dyn FnMut(&mut Choices) -> Vec<u8>) -> V {
                if d == 0 {
                    V::A(leaf(c))
                } else {
                    cons(bal(c, d - 1, leaf), bal(c, d - 1, leaf))
                }
            }
            (bal(c, d, leaf), "shape:balanced")
        }
        _ => {
            fn rec(c: &mut Choices, budget: &mut usize, depth: usize, leaf: &mut dyn FnMut(&mut Choices) -> Vec<u8>) -> V {
                if *budget == 0 || depth > 40 || !c.chance(150) {
                    V::A(leaf(c))
                } else {
                    *budget -= 1;
                    let l = rec(c, budget, depth + 1, leaf);
                    let r = rec(c, budget, depth + 1, leaf);
                    cons(l, r)
                }
            }
            let mut budget = max_nodes;
            (rec(c, &mut budget, 0, leaf), "shape:random")
        }
    }
}

/// all byte strings of length 0..=2 then length 3: index -> atom
pub fn atom_by_index(i: u64) -> Vec<u8> {
    if i == 0 {
        vec![]
    } else if i < 1 + 256 {
        vec![(i - 1) as u8]
    } else if i < 1 + 256 + 65536 {
        let j = i - 257;
        vec![(j >> 8) as u8, j as u8]
    } else {
        let j = i - 257 - 65536;
        vec![(j >> 16) as u8, (j >> 8) as u8, j as u8]
    }
}
pub const ATOMS_LEN_LE2: u64 = 1 + 256 + 65536;
pub const ATOMS_LEN_LE3: u64 = 1 + 256 + 65536 + 16777216;
