//! G2: raw CLVM programs and environments (DESIGN §2.3).
//!
//! Random generation is *value-directed*: the environment is generated first, then a pool of
//! sub-expressions is grown bottom-up; the value of every pool element in the environment is
//! known (computed with clvmr), so operands can be chosen to make each operator succeed.  With
//! small probability a failing construct is injected.  Every program terminates: `a` is only
//! applied to quoted code generated at a smaller size.
//!
//! Exhaustive generation: all binary trees with <= N leaves over a small atom alphabet.

use crate::choices::Choices;
use crate::gen_value::*;
use crate::sut;

pub const OP_Q: u8 = 1;
pub const OP_A: u8 = 2;
pub const OP_I: u8 = 3;
pub const OP_C: u8 = 4;
pub const OP_F: u8 = 5;
pub const OP_R: u8 = 6;
pub const OP_L: u8 = 7;
pub const OP_X: u8 = 8;

fn op(o: u8) -> V {
    V::A(vec![o])
}
pub fn quote(v: &V) -> V {
    cons(op(OP_Q), v.clone())
}
pub fn call(o: u8, args: Vec<V>) -> V {
    cons(op(o), list(args))
}

/// unsigned minimal bytes of a path number given as bits (msb first, leading 1 sentinel)
fn path_bytes_from_bits(bits: &[bool]) -> Vec<u8> {
    // bits: sequence of moves from the root, false = left(first), true = right(rest)
    // path number: sentinel 1 then moves from last to first (lsb = first move)
    let mut n: Vec<bool> = vec![true];
    for b in bits.iter().rev() {
        n.push(*b);
    }
    // n is msb-first bit string
    let pad = (8 - n.len() % 8) % 8;
    let mut full = vec![false; pad];
    full.extend(n);
    full.chunks(8)
        .map(|ch| ch.iter().fold(0u8, |acc, b| (acc << 1) | (*b as u8)))
        .collect()
}

/// spell a path in one of the byte classes that denote the same path for the consensus evaluator
fn spell_path(c: &mut Choices, minimal_unsigned: Vec<u8>, labels: &mut Vec<&'static str>) -> Vec<u8> {
    match c.weighted(&[10, 3, 2]) {
        0 => {
            if minimal_unsigned[0] & 0x80 != 0 {
                labels.push("path:top-bit-set");
            }
            minimal_unsigned
        }
        1 => {
            labels.push("path:zero-padded");
            let mut v = vec![0u8; c.range(1, 3)];
            v.extend(minimal_unsigned);
            v
        }
        _ => {
            // canonical signed integer encoding (adds 0x00 only when the top bit is set)
            if minimal_unsigned[0] & 0x80 != 0 {
                labels.push("path:signed-canonical-padded");
                let mut v = vec![0u8];
                v.extend(minimal_unsigned);
                v
            } else {
                minimal_unsigned
            }
        }
    }
}

fn small_leaf(c: &mut Choices) -> Vec<u8> {
    match c.weighted(&[6, 3, 3, 2, 2, 1]) {
        0 => int_bytes(c.range(0, 20) as i64),
        1 => vec![],
        2 => int_bytes(c.range(0, 1000) as i64 - 500),
        3 => {
            let n = c.range(1, 5);
            (0..n).map(|_| b'a' + c.pick(26) as u8).collect()
        }
        4 => gen_atom(c, false).0,
        _ => c.bytes(32),
    }
}

/// an environment built around one chosen path atom: the spine follows the moves the atom's bits
/// spell (siblings are atoms), so that byte patterns that are awkward as *numbers* (0xff7f = -129,
/// 0x80.., 0x7fff, 0xffff..) occur as *valid* paths
fn env_for_byte_pattern(c: &mut Choices, labels: &mut Vec<&'static str>) -> V {
    let mut bytes: Vec<u8> = match c.pick(7) {
        0 => vec![0xff, c.range(1, 0x7f) as u8],
        1 => vec![0xff, 0x00 | c.range(0, 0x7f) as u8, c.range(0, 255) as u8],
        2 => vec![0x80, c.range(0, 255) as u8],
        3 => vec![0x7f, 0xff],
        4 => vec![0xff; c.range(1, 3)],
        5 => vec![c.range(0x80, 0xff) as u8, c.range(0, 255) as u8, c.range(0, 255) as u8],
        _ => c.bytes(2),
    };
    if bytes.iter().all(|b| *b == 0) {
        bytes = vec![0xff, 0x7f];
    }
    labels.push("env:built-for-a-byte-pattern-path");
    // msb-first bits after the sentinel, reversed = moves from the root
    let mut bits: Vec<bool> = bytes.iter().flat_map(|b| (0..8).rev().map(move |i| (b >> i) & 1 == 1)).collect();
    while !bits[0] {
        bits.remove(0);
    }
    bits.remove(0); // the sentinel
    // bits[0] is the LAST move; build from the leaf up
    let mut t = V::A(int_bytes(c.range(100, 999) as i64));
    let mut k = 0i64;
    for b in bits.iter() {
        k += 1;
        let sib = V::A(int_bytes(1000 + k));
        t = if *b { cons(sib, t) } else { cons(t, sib) };
    }
    t
}

pub fn gen_env(c: &mut Choices, labels: &mut Vec<&'static str>) -> V {
    match c.weighted(&[10, 3, 3, 3]) {
        3 => env_for_byte_pattern(c, labels),
        0 => gen_tree(c, 24, &mut |c| small_leaf(c)).0,
        1 => {
            // argument-list shaped: proper list of small trees
            let n = c.range(0, 6);
            list((0..n).map(|_| gen_tree(c, 6, &mut |c| small_leaf(c)).0).collect())
        }
        _ => {
            // deep zig-zag spine for long f/r chains and multi-byte paths
            labels.push("env:deep-spine");
            let d = c.range(8, 90);
            let mut t = V::A(small_leaf(c));
            for _ in 0..d {
                let leaf = V::A(int_bytes(c.range(0, 9) as i64));
                t = if c.chance(128) { cons(leaf, t) } else { cons(t, leaf) };
            }
            t
        }
    }
}

#[derive(Clone)]
pub struct Elem {
    pub expr: V,
    pub val: V,
}

pub struct GenOut {
    pub env: V,
    pub prog: V,
    /// value the generator expects, when it tracked one (None after an injected failure)
    pub expect: Option<V>,
    pub labels: Vec<&'static str>,
    pub ops: usize,
}

fn truthy(v: &V) -> bool {
    !v.is_nil()
}

fn as_small_int(v: &V) -> Option<i64> {
    match v {
        V::A(b) if b.len() <= 4 => {
            let mut x: i64 = if !b.is_empty() && b[0] & 0x80 != 0 { -1 } else { 0 };
            for by in b {
                x = (x << 8) | (*by as i64);
            }
            Some(x)
        }
        _ => None,
    }
}

const ARITH: &[(u8, &str)] = &[
    (16, "+"),
    (17, "-"),
    (18, "*"),
    (9, "="),
    (21, ">"),
    (10, ">s"),
    (24, "logand"),
    (25, "logior"),
    (26, "logxor"),
    (14, "concat"),
    (11, "sha256"),
    (33, "any"),
    (34, "all"),
];
const UNARY: &[(u8, &str)] = &[(27, "lognot"), (13, "strlen"), (32, "not"), (11, "sha256"), (62, "keccak256")];

/// Generate program + env.  `max_steps` bounds the number of pool-combination steps.
pub fn gen_program(c: &mut Choices, max_steps: usize, depth: usize) -> GenOut {
    let mut labels: Vec<&'static str> = vec![];
    let env = gen_env(c, &mut labels);
    let (prog, expect, ops) = gen_in_env(c, &env, max_steps, depth, &mut labels);
    GenOut {
        env,
        prog,
        expect,
        labels,
        ops,
    }
}

fn random_path(c: &mut Choices, env: &V, labels: &mut Vec<&'static str>) -> Elem {
    // walk the env
    let mut bits = vec![];
    let mut cur = env;
    let maxd = c.range(0, 90);
    // greedy walks follow the spine of spine-shaped environments to the bottom
    let greedy = c.chance(110);
    let maxd = if greedy { 200 } else { maxd };
    for _ in 0..maxd {
        match cur {
            V::P(l, r) => {
                let go_right = if greedy && matches!(**l, V::A(_)) != matches!(**r, V::A(_)) { matches!(**l, V::A(_)) } else { c.chance(128) };
                if go_right {
                    bits.push(true);
                    cur = r;
                } else {
                    bits.push(false);
                    cur = l;
                }
            }
            _ => break,
        }
    }
    let bytes = path_bytes_from_bits(&bits);
    if bytes.len() >= 2 {
        labels.push("path:multi-byte");
    }
    if bytes.iter().all(|b| *b == 0xff) {
        labels.push("path:all-ones");
    }
    let spelled = spell_path(c, bytes, labels);
    Elem {
        expr: V::A(spelled),
        val: cur.clone(),
    }
}

fn gen_in_env(
    c: &mut Choices,
    env: &V,
    max_steps: usize,
    depth: usize,
    labels: &mut Vec<&'static str>,
) -> (V, Option<V>, usize) {
    let mut pool: Vec<Elem> = vec![];
    let mut ops = 0usize;
    // leaves
    let nleaves = c.range(1, 4);
    for _ in 0..nleaves {
        let e = match c.weighted(&[5, 5, 1]) {
            0 => {
                let v = match c.weighted(&[5, 2, 2]) {
                    0 => V::A(small_leaf(c)),
                    1 => gen_tree(c, 6, &mut |c| small_leaf(c)).0,
                    _ => nil(),
                };
                if v.is_nil() && c.chance(100) {
                    labels.push("leaf:bare-nil");
                    Elem { expr: nil(), val: nil() }
                } else {
                    Elem { expr: quote(&v), val: v }
                }
            }
            1 => random_path(c, env, labels),
            _ => Elem {
                expr: int(1),
                val: env.clone(),
            },
        };
        pool.push(e);
    }
    let steps = c.range(0, max_steps);
    let mut injected_failure = false;
    for _ in 0..steps {
        let k = c.weighted(&[
            10, // 0 f/r
            8,  // 1 c
            4,  // 2 l
            8,  // 3 binary/variadic arithmetic & friends
            4,  // 4 unary
            5,  // 5 strict i
            6,  // 6 lazy if idiom
            if depth > 0 { 7 } else { 0 }, // 7 apply with re-rooting
            6,  // 8 f/r chain
            3,  // 9 division family
            2,  // 10 shifts / substr
            1,  // 11 crypto & misc
            1,  // 12 injected failure
        ]);
        let n = pool.len();
        let pick = |c: &mut Choices| c.pick(n);
        ops += 1;
        let new = match k {
            0 => {
                let conses: Vec<usize> = (0..n).filter(|i| matches!(pool[*i].val, V::P(_, _))).collect();
                if conses.is_empty() {
                    let a = pool[pick(c)].clone();
                    let b = pool[pick(c)].clone();
                    Elem {
                        expr: call(OP_C, vec![a.expr, b.expr]),
                        val: cons(a.val, b.val),
                    }
                } else {
                    let x = pool[conses[c.pick(conses.len())]].clone();
                    if c.chance(128) {
                        labels.push("op:f");
                        Elem {
                            expr: call(OP_F, vec![x.expr]),
                            val: x.val.first().unwrap().clone(),
                        }
                    } else {
                        labels.push("op:r");
                        Elem {
                            expr: call(OP_R, vec![x.expr]),
                            val: x.val.rest().unwrap().clone(),
                        }
                    }
                }
            }
            1 => {
                labels.push("op:c");
                let a = pool[pick(c)].clone();
                let b = pool[pick(c)].clone();
                Elem {
                    expr: call(OP_C, vec![a.expr, b.expr]),
                    val: cons(a.val, b.val),
                }
            }
            2 => {
                labels.push("op:l");
                let a = pool[pick(c)].clone();
                let v = if matches!(a.val, V::P(_, _)) { int(1) } else { nil() };
                Elem {
                    expr: call(OP_L, vec![a.expr]),
                    val: v,
                }
            }
            3 | 4 | 9 | 10 | 11 => {
                // operators delegated to clvmr for their value: build, evaluate, keep if Ok
                let atoms: Vec<usize> = (0..n).filter(|i| matches!(pool[*i].val, V::A(_))).collect();
                let ints: Vec<usize> = atoms
                    .iter()
                    .copied()
                    .filter(|i| as_small_int(&pool[*i].val).is_some())
                    .collect();
                let fallback = Elem {
                    expr: quote(&int(7)),
                    val: int(7),
                };
                let pick_from = |c: &mut Choices, ix: &Vec<usize>| -> Elem {
                    if ix.is_empty() {
                        fallback.clone()
                    } else {
                        pool[ix[c.pick(ix.len())]].clone()
                    }
                };
                let expr = match k {
                    3 => {
                        let (o, name) = *c.choose(ARITH);
                        let _ = name;
                        labels.push("op:arith/compare/logic/concat");
                        let nargs = if matches!(o, 9 | 21 | 10) { 2 } else { c.range(0, 3) };
                        let src = if matches!(o, 16 | 17 | 18 | 21 | 24 | 25 | 26) { &ints } else { &atoms };
                        call(o, (0..nargs).map(|_| pick_from(c, src).expr).collect())
                    }
                    4 => {
                        let (o, _) = *c.choose(UNARY);
                        labels.push("op:unary");
                        let src = if o == 27 { &ints } else { &atoms };
                        call(o, vec![pick_from(c, src).expr])
                    }
                    9 => {
                        labels.push("op:div-family");
                        let o = *c.choose(&[19u8, 20, 61]);
                        let d = c.range(1, 9) as i64 * if c.chance(64) { -1 } else { 1 };
                        call(o, vec![pick_from(c, &ints).expr, quote(&int(d))])
                    }
                    10 => {
                        labels.push("op:shift/substr");
                        match c.pick(3) {
                            0 => call(22, vec![pick_from(c, &ints).expr, quote(&int(c.range(0, 12) as i64 - 4))]),
                            1 => call(23, vec![pick_from(c, &ints).expr, quote(&int(c.range(0, 12) as i64 - 4))]),
                            _ => {
                                let sv = b"hello world".to_vec();
                                let a = c.range(0, 5) as i64;
                                let b = a + c.range(0, 5) as i64;
                                call(12, vec![quote(&V::A(sv)), quote(&int(a)), quote(&int(b))])
                            }
                        }
                    }
                    _ => {
                        labels.push("op:crypto/misc");
                        match c.pick(6) {
                            0 => call(30, vec![quote(&int(c.range(1, 50) as i64))]), // pubkey_for_exp
                            1 => call(60, vec![quote(&int(c.range(0, 9) as i64)), quote(&int(c.range(0, 9) as i64)), quote(&int(c.range(1, 99) as i64))]),
                            2 => call(48, vec![quote(&V::A(vec![1; 32])), quote(&V::A(vec![2; 32])), pick_from(c, &ints).expr]),
                            3 => call(56, vec![pick_from(c, &atoms).expr]), // g1_map
                            4 => call(29, vec![call(30, vec![quote(&int(2))]), call(30, vec![quote(&int(3))])]), // point_add
                            _ => call(51, vec![call(30, vec![quote(&int(5))])]), // g1_negate
                        }
                    }
                };
                match sut::run_consensus(&expr, env, 200_000_000) {
                    Ok(v) => Elem { expr, val: v },
                    Err(_) => {
                        // keep the pool successful: drop the element (counts as a step)
                        labels.push("gen:operator-operands-failed");
                        continue;
                    }
                }
            }
            5 => {
                labels.push("op:i-strict");
                let cnd = pool[pick(c)].clone();
                let a = pool[pick(c)].clone();
                let b = pool[pick(c)].clone();
                let v = if truthy(&cnd.val) { a.val.clone() } else { b.val.clone() };
                Elem {
                    expr: call(OP_I, vec![cnd.expr, a.expr, b.expr]),
                    val: v,
                }
            }
            6 => {
                labels.push("op:if-lazy-idiom");
                let cnd = pool[pick(c)].clone();
                let a = pool[pick(c)].clone();
                let b = pool[pick(c)].clone();
                let failing = call(OP_X, vec![quote(&int(9))]);
                let (ae, be) = if c.chance(60) {
                    labels.push("lazy-branch-would-raise");
                    if truthy(&cnd.val) {
                        (a.expr.clone(), failing)
                    } else {
                        (failing, b.expr.clone())
                    }
                } else {
                    (a.expr.clone(), b.expr.clone())
                };
                let v = if truthy(&cnd.val) { a.val.clone() } else { b.val.clone() };
                Elem {
                    expr: call(OP_A, vec![call(OP_I, vec![cnd.expr, quote(&ae), quote(&be)]), int(1)]),
                    val: v,
                }
            }
            7 => {
                labels.push("op:a-reroot");
                let e2 = pool[pick(c)].clone();
                let (code, v, o2) = gen_in_env(c, &e2.val, max_steps / 2, depth - 1, labels);
                ops += o2;
                match v {
                    Some(v) => Elem {
                        expr: call(OP_A, vec![quote(&code), e2.expr]),
                        val: v,
                    },
                    None => {
                        injected_failure = true;
                        pool.push(Elem {
                            expr: call(OP_A, vec![quote(&code), e2.expr]),
                            val: nil(),
                        });
                        break;
                    }
                }
            }
            8 => {
                let x = pool[pick(c)].clone();
                let maxlen = c.range(0, 80);
                let mut expr = x.expr;
                let mut cur = x.val;
                let mut len = 0;
                for _ in 0..maxlen {
                    match &cur {
                        V::P(l, r) => {
                            if c.chance(128) {
                                expr = call(OP_F, vec![expr]);
                                cur = (**l).clone();
                            } else {
                                expr = call(OP_R, vec![expr]);
                                cur = (**r).clone();
                            }
                            len += 1;
                        }
                        _ => break,
                    }
                }
                if len >= 8 {
                    labels.push("chain:f/r>=8");
                } else if len >= 2 {
                    labels.push("chain:f/r>=2");
                }
                Elem { expr, val: cur }
            }
            _ => {
                // injected failure: the whole program is expected to fail in both evaluators
                injected_failure = true;
                let a = pool[pick(c)].clone();
                let bad = match c.pick(7) {
                    6 => {
                        labels.push("fail:padded-opcode");
                        let o = *c.choose(&[16u8, OP_C, OP_A, OP_I, OP_F, 61, 9]);
                        let pad = if c.chance(200) { 0u8 } else { 0xff };
                        let opb = if pad == 0 { vec![0, o] } else { vec![0xff, 0x80 | o] };
                        cons(V::A(opb), list(vec![a.expr.clone(), a.expr]))
                    }
                    0 => {
                        labels.push("fail:raise");
                        call(OP_X, vec![a.expr])
                    }
                    1 => {
                        labels.push("fail:wrong-arity");
                        match c.pick(4) {
                            0 => call(OP_F, vec![a.expr.clone(), a.expr]),
                            1 => call(OP_C, vec![a.expr]),
                            2 => call(OP_I, vec![a.expr.clone(), a.expr]),
                            _ => call(OP_A, vec![a.expr]),
                        }
                    }
                    2 => {
                        labels.push("fail:improper-args");
                        cons(op(*c.choose(&[OP_F, OP_C, 16u8, OP_L])), cons(a.expr, int(1)))
                    }
                    3 => {
                        labels.push("fail:path-into-atom");
                        let mut p = vec![0x7fu8];
                        let k = c.range(1, 6);
                        p.extend(c.bytes(k));
                        V::A(p)
                    }
                    4 => {
                        labels.push("fail:f-of-atom");
                        call(OP_F, vec![quote(&int(5))])
                    }
                    _ => {
                        labels.push("fail:unknown-op");
                        call(*c.choose(&[15u8, 28, 31, 35, 63, 100, 200]), vec![a.expr])
                    }
                };
                pool.push(Elem { expr: bad, val: nil() });
                break;
            }
        };
        pool.push(new);
    }
    // result: the last element, or a cons-list of several (so that more of the pool is live)
    let last = pool.last().unwrap().clone();
    if injected_failure {
        // make sure the failing element is evaluated
        return (last.expr, None, ops);
    }
    if pool.len() >= 2 && c.chance(90) {
        let k = c.range(2, pool.len().min(4));
        let items: Vec<Elem> = pool[pool.len() - k..].to_vec();
        let mut expr = nil();
        let mut val = nil();
        for it in items.into_iter().rev() {
            expr = call(OP_C, vec![it.expr, expr]);
            val = cons(it.val, val);
        }
        (expr, Some(val), ops + k)
    } else {
        (last.expr, Some(last.val), ops)
    }
}

// ---------------------------------------------------------------------------------------
// exhaustive small trees

pub const SMALL_ALPHABET: &[&[u8]] = &[
    &[],     // nil
    &[1],    // q / path 1
    &[2],    // a / path 2
    &[3],    // i / path 3
    &[4],    // c
    &[5],    // f / path 5
    &[6],    // r / path 6
    &[7],    // l / path 7
    &[8],    // x
    &[9],    // =
    &[16],   // +
    &[17],   // -
    &[11],   // a second small int that is also sha256 (kept: exercises operator-with-atom-args)
    &[0x80], // negative small int / top-bit path
];

pub const SMALL_ENVS: usize = 6;
pub fn small_env(i: usize) -> V {
    match i {
        0 => nil(),
        1 => int(5),
        2 => cons(int(1), int(2)),
        3 => list(vec![int(1), int(2), int(3)]),
        4 => cons(cons(int(4), int(5)), cons(int(6), nil())),
        _ => list(vec![cons(int(1), cons(int(2), int(3))), list(vec![int(7)]), int(9)]),
    }
}

/// number of trees with exactly n leaves over an alphabet of size a (n = 1..=max)
pub fn tree_counts(a: u64, max: usize) -> Vec<u64> {
    let mut cnt = vec![0u64; max + 1];
    if max >= 1 {
        cnt[1] = a;
    }
    for n in 2..=max {
        let mut s = 0u64;
        for k in 1..n {
            s += cnt[k] * cnt[n - k];
        }
        cnt[n] = s;
    }
    cnt
}

pub fn total_trees(max_leaves: usize) -> u64 {
    tree_counts(SMALL_ALPHABET.len() as u64, max_leaves).iter().sum()
}

fn unrank(mut i: u64, n: usize, cnt: &[u64]) -> V {
    if n == 1 {
        return V::A(SMALL_ALPHABET[i as usize].to_vec());
    }
    for k in 1..n {
        let block = cnt[k] * cnt[n - k];
        if i < block {
            let li = i / cnt[n - k];
            let ri = i % cnt[n - k];
            return cons(unrank(li, k, cnt), unrank(ri, n - k, cnt));
        }
        i -= block;
    }
    unreachable!()
}

/// index -> tree among all trees with 1..=max_leaves leaves
pub fn small_tree(mut i: u64, max_leaves: usize) -> V {
    let cnt = tree_counts(SMALL_ALPHABET.len() as u64, max_leaves);
    for n in 1..=max_leaves {
        if i < cnt[n] {
            return unrank(i, n, &cnt);
        }
        i -= cnt[n];
    }
    nil()
}
