//! G4: text (DESIGN §2.5): layout-recording renderer, mutators over valid texts, token soup.

use crate::choices::Choices;
use std::sync::OnceLock;

// ---------------------------------------------------------------------------------------------
// (a) layout-recording renderer

#[derive(Clone, Debug)]
pub enum Tok {
    Bare(String),
    Dec(String),
    Hex(String),
    /// raw text including the quotes and escapes, and the bytes it denotes
    DStr(String, Vec<u8>),
    SStr(String, Vec<u8>),
    /// #name
    Hash(String),
}

#[derive(Clone, Debug)]
pub enum TT {
    Leaf(Tok),
    List(Vec<TT>, Option<Box<TT>>),
}

#[derive(Clone, Debug, Default)]
pub struct Span {
    /// 1-based line/col of the first and of the last character
    pub first: (usize, usize),
    pub last: (usize, usize),
}

#[derive(Clone, Debug)]
pub enum Placed {
    Leaf(Tok, Span),
    List(Vec<Placed>, Option<Box<Placed>>, Span),
}

const WORDS: &[&str] = &[
    "a", "b", "foo", "bar-baz", "x1", "defun", "mod", "if", "list", "c", "f", "r", "q", "sha256", "+", "-", "*", "/", ">", "=", "&rest", "@", "some_name", "CamelCase",
    "assign", "lambda", "include", "x.y", "a:b", "$", "!", "<=",
];

pub fn gen_tok(c: &mut Choices) -> Tok {
    match c.weighted(&[10, 5, 2, 3, 4, 3, 3]) {
        0 => Tok::Bare(c.choose(WORDS).to_string()),
        1 => {
            let n = c.range(0, 100000);
            Tok::Dec(format!("{}{}", if c.chance(60) { "-" } else { "" }, n))
        }
        2 => {
            let k = c.range(20, 60);
            let digits: String = (0..k).map(|_| (b'0' + c.pick(10) as u8) as char).collect();
            Tok::Dec(format!("{}1{}", if c.chance(60) { "-" } else { "" }, digits))
        }
        3 => {
            let k = c.range(1, 8);
            let h: String = (0..k).map(|_| *c.choose(b"0123456789abcdefABCDEF") as char).collect();
            Tok::Hex(format!("0x{h}"))
        }
        4 | 5 => {
            let q = if c.chance(128) { '"' } else { '\'' };
            let n = c.range(0, 10);
            let mut raw = String::new();
            let mut val = vec![];
            raw.push(q);
            for _ in 0..n {
                match c.pick(10) {
                    0 => {
                        // escaped quote or backslash
                        let e = if c.chance(128) { q } else { '\\' };
                        raw.push('\\');
                        raw.push(e);
                        val.push(e as u8);
                    }
                    1 => {
                        // multi-line string
                        raw.push('\n');
                        val.push(b'\n');
                    }
                    2 => {
                        let ch = *c.choose(b"();#. ") as char;
                        raw.push(ch);
                        val.push(ch as u8);
                    }
                    3 => {
                        // the other quote character
                        let o = if q == '"' { '\'' } else { '"' };
                        raw.push(o);
                        val.push(o as u8);
                    }
                    _ => {
                        let ch = (b'a' + c.pick(26) as u8) as char;
                        raw.push(ch);
                        val.push(ch as u8);
                    }
                }
            }
            raw.push(q);
            if q == '"' {
                Tok::DStr(raw, val)
            } else {
                Tok::SStr(raw, val)
            }
        }
        _ => Tok::Hash(c.choose(&["a", "c", "sha256", "+", "notanop", "q", "divmod"]).to_string()),
    }
}

pub fn gen_tt(c: &mut Choices, depth: usize) -> TT {
    if depth == 0 || c.chance(100) {
        return TT::Leaf(gen_tok(c));
    }
    let n = c.range(0, 5);
    let items: Vec<TT> = (0..n).map(|_| gen_tt(c, depth - 1)).collect();
    let tail = if n > 0 && c.chance(40) { Some(Box::new(gen_tt(c, depth.min(2) - 1))) } else { None };
    TT::List(items, tail)
}

pub struct Renderer<'a, 'b> {
    pub c: &'a mut Choices<'b>,
    pub out: String,
    pub line: usize,
    pub col: usize,
    pub comments: usize,
    pub newlines: usize,
}

impl<'a, 'b> Renderer<'a, 'b> {
    pub fn new(c: &'a mut Choices<'b>) -> Self {
        Renderer {
            c,
            out: String::new(),
            line: 1,
            col: 1,
            comments: 0,
            newlines: 0,
        }
    }
    fn emit(&mut self, s: &str) {
        for ch in s.chars() {
            self.out.push(ch);
            if ch == '\n' {
                self.line += 1;
                self.col = 1;
            } else {
                self.col += 1;
            }
        }
    }
    /// whitespace between tokens; `required` forces at least one separator
    fn gap(&mut self, required: bool) {
        let n = if required { self.c.range(1, 3) } else { self.c.range(0, 2) };
        for _ in 0..n {
            match self.c.weighted(&[10, 3, 2]) {
                0 => self.emit(" "),
                1 => {
                    self.newlines += 1;
                    self.emit("\n");
                }
                _ => {
                    self.comments += 1;
                    self.newlines += 1;
                    let words = ["; a comment", ";; (unbalanced \" in comment", ";", "; tail )"];
                    let w = words[self.c.pick(words.len())];
                    self.emit(" ");
                    self.emit(w);
                    self.emit("\n");
                }
            }
        }
    }
    /// several top-level forms one after the other (leaves too), separated by generated gaps
    pub fn place_top(&mut self, forms: &[TT]) -> Vec<Placed> {
        let mut out = vec![];
        self.gap(false);
        for (i, f) in forms.iter().enumerate() {
            if i > 0 {
                self.gap(true);
            }
            out.push(self.place(f));
        }
        // a trailing gap sometimes: the last token may also end at end of input -- except a bare
        // word after other forms: the reader then returns that word alone and drops every earlier
        // top-level form (finalize() in the Bareword state ignores what was collected; observed,
        // outside what C15 states, noted in DESIGN.md).  Kept out by construction.
        let last_is_word = matches!(forms.last(), Some(TT::Leaf(Tok::Bare(_) | Tok::Dec(_) | Tok::Hex(_) | Tok::Hash(_))));
        if (last_is_word && forms.len() > 1) || self.c.chance(128) {
            self.gap(true);
        }
        out
    }
    pub fn place(&mut self, t: &TT) -> Placed {
        match t {
            TT::Leaf(tok) => {
                let text = match tok {
                    Tok::Bare(s) | Tok::Dec(s) | Tok::Hex(s) => s.clone(),
                    Tok::DStr(raw, _) | Tok::SStr(raw, _) => raw.clone(),
                    Tok::Hash(n) => format!("#{n}"),
                };
                let first = (self.line, self.col);
                let mut last = first;
                for ch in text.chars() {
                    last = (self.line, self.col);
                    self.emit(&ch.to_string());
                }
                Placed::Leaf(tok.clone(), Span { first, last })
            }
            TT::List(items, tail) => {
                let first = (self.line, self.col);
                self.emit("(");
                let mut placed = vec![];
                for (i, it) in items.iter().enumerate() {
                    // a quoted string needs no separator, everything else does
                    self.gap(i > 0);
                    placed.push(self.place(it));
                }
                let ptail = match tail {
                    Some(t) => {
                        self.gap(true);
                        self.emit(".");
                        self.gap(true);
                        Some(Box::new(self.place(t)))
                    }
                    None => None,
                };
                // a bareword directly followed by ')' is fine
                self.gap(false);
                let last = (self.line, self.col);
                self.emit(")");
                Placed::List(placed, ptail, Span { first, last })
            }
        }
    }
}

// ---------------------------------------------------------------------------------------------
// corpus of valid texts

pub fn shipped_corpus() -> &'static Vec<(String, String)> {
    static CORPUS: OnceLock<Vec<(String, String)>> = OnceLock::new();
    CORPUS.get_or_init(|| {
        let mut out = vec![];
        fn walk(dir: &std::path::Path, out: &mut Vec<(String, String)>) {
            if let Ok(rd) = std::fs::read_dir(dir) {
                let mut es: Vec<_> = rd.flatten().map(|e| e.path()).collect();
                es.sort();
                for p in es {
                    if p.is_dir() {
                        walk(&p, out);
                    } else if let Some(ext) = p.extension().and_then(|e| e.to_str()) {
                        if matches!(ext, "clsp" | "clvm" | "clib" | "clinc") {
                            if let Ok(t) = std::fs::read_to_string(&p) {
                                if t.len() < 20_000 && !t.contains('\t') {
                                    out.push((p.to_string_lossy().to_string(), t));
                                }
                            }
                        }
                    }
                }
            }
        }
        walk(std::path::Path::new("/repo/resources/tests"), &mut out);
        out
    })
}

// ---------------------------------------------------------------------------------------------
// (b) mutators, (c) token soup

/// split into tokens keeping enough to re-join: parens, quoted strings, comments, words
pub fn tokenize(s: &str) -> Vec<String> {
    let b = s.as_bytes();
    let mut i = 0;
    let mut out = vec![];
    while i < b.len() {
        let ch = b[i];
        if ch.is_ascii_whitespace() {
            i += 1;
        } else if ch == b';' {
            let j = b[i..].iter().position(|x| *x == b'\n').map(|k| i + k).unwrap_or(b.len());
            out.push(format!("{}\n", String::from_utf8_lossy(&b[i..j])));
            i = j + 1;
        } else if ch == b'(' || ch == b')' {
            out.push((ch as char).to_string());
            i += 1;
        } else if ch == b'"' || ch == b'\'' {
            let mut j = i + 1;
            while j < b.len() && b[j] != ch {
                if b[j] == b'\\' {
                    j += 1;
                }
                j += 1;
            }
            let j = (j + 1).min(b.len());
            out.push(String::from_utf8_lossy(&b[i..j]).to_string());
            i = j;
        } else {
            let mut j = i;
            while j < b.len() && !b[j].is_ascii_whitespace() && b[j] != b'(' && b[j] != b')' {
                j += 1;
            }
            out.push(String::from_utf8_lossy(&b[i..j]).to_string());
            i = j;
        }
    }
    out
}

pub fn join(toks: &[String]) -> String {
    let mut s = String::new();
    for t in toks {
        if !s.is_empty() && !s.ends_with('(') && !s.ends_with('\n') && t != ")" {
            s.push(' ');
        }
        s.push_str(t);
    }
    s
}

pub const KEYWORDS: &[&str] = &[
    "mod", "defun", "defun-inline", "defmacro", "defmac", "defconstant", "defconst", "include", "embed-file", "let", "let*", "assign", "assign-lambda", "assign-inline", "lambda", "if", "list", "qq", "unquote",
    "quote", "q", "a", "i", "c", "f", "r", "l", "x", "=", "+", "-", "*", "/", "&rest", "@", "&", "com", "opt", "*standard-cl-21*", "*standard-cl-23*", "*standard-cl-24*", "*strict-cl-21*", "*standard-cl-22*",
    "*standard-cl-23.1*", "sha256", "concat", "()", "0", "1", "-1", "0x", "0x00", "\"\"", "#", "bin", "hex", "sexp", ".",
];

pub fn mutate(c: &mut Choices, text: &str, other: &str) -> (String, &'static str) {
    let mut toks = tokenize(text);
    if toks.is_empty() {
        toks.push("()".into());
    }
    let n = toks.len();
    match c.pick(12) {
        0 => {
            toks.remove(c.pick(n));
            (join(&toks), "mut:delete-token")
        }
        1 => {
            let i = c.pick(n);
            let t = toks[i].clone();
            toks.insert(i, t);
            (join(&toks), "mut:duplicate-token")
        }
        2 => {
            let i = c.pick(n);
            let j = c.pick(n);
            toks.swap(i, j);
            (join(&toks), "mut:swap-tokens")
        }
        3 => {
            let at = c.pick(text.len() + 1);
            let mut cut = at;
            while cut > 0 && !text.is_char_boundary(cut) {
                cut -= 1;
            }
            (text[..cut].to_string(), "mut:truncate")
        }
        4 => {
            let i = c.pick(n + 1);
            let ins = *c.choose(&["(", ")", "\"", "'", "\\", "#", ".", "#(", ". .", "))", "(("]);
            toks.insert(i, ins.to_string());
            (join(&toks), "mut:insert-delimiter")
        }
        5 => {
            let i = c.pick(n);
            toks[i] = c.choose(KEYWORDS).to_string();
            (join(&toks), "mut:replace-by-keyword")
        }
        6 => {
            let i = c.pick(n);
            let k = c.choose(KEYWORDS).to_string();
            toks[i] = format!("({} {})", k, toks[i]);
            (join(&toks), "mut:replace-by-list")
        }
        7 => {
            // splice: first half of one, second half of the other
            let o = tokenize(other);
            let i = c.pick(n);
            let j = c.pick(o.len().max(1));
            let mut r = toks[..i].to_vec();
            r.extend_from_slice(&o[j.min(o.len())..]);
            (join(&r), "mut:splice")
        }
        8 => {
            // drop the body / an argument list: remove a balanced group
            let opens: Vec<usize> = (0..n).filter(|i| toks[*i] == "(").collect();
            if let Some(&st) = opens.get(c.pick(opens.len().max(1))) {
                let mut depth = 0;
                let mut e = st;
                for (k, t) in toks.iter().enumerate().skip(st) {
                    if t == "(" {
                        depth += 1;
                    } else if t == ")" {
                        depth -= 1;
                        if depth == 0 {
                            e = k;
                            break;
                        }
                    }
                }
                if e > st {
                    toks.drain(st..=e);
                }
            }
            (join(&toks), "mut:delete-group")
        }
        9 => {
            let i = c.pick(n);
            toks[i] = "1".to_string();
            (join(&toks), "mut:replace-by-number")
        }
        10 => {
            // change one character
            let mut b = text.as_bytes().to_vec();
            if !b.is_empty() {
                let i = c.pick(b.len());
                b[i] = *c.choose(b"()\"'\\#.; a0-x");
            }
            (String::from_utf8_lossy(&b).to_string(), "mut:change-char")
        }
        _ => {
            // a token that sits on the border between the reader's token classes
            let i = c.pick(n);
            toks[i] = c.choose(ODD_TOKENS).to_string();
            (join(&toks), "mut:replace-by-odd-token")
        }
    }
}

/// tokens on the borders between the reader's token classes (number / hex / bareword / string /
/// hash-prefixed / dotted)
pub const ODD_TOKENS: &[&str] = &[
    "--1", "--", "-", "+1", "++", "-0", "00", "0x", "0xg", "0x-1", "0X10", "0x0", "1-", "1e5", "1.5", ".5", "-.", "..", "#", "##", "#(", "#)", "#a", "#0x10", "\"", "'", "\"\\\"", "'\\'", "a\"b", "a'b", "-0x10", "0x1", "0xfffffffffffffffffffffffffffffffffffffffffffffffffffffffffffffffffff",
    "-99999999999999999999999999999999999999999999999999999999999999999999999999999", "1_000", "١", "é", "&rest&rest", "@@", "(@)", "&", "(&)", "*standard-cl-99*", "*strict-cl-23*", "q.", ".q", "(.)", "(. a)", "(a .)", "(a . b c)",
];

pub fn token_soup(c: &mut Choices) -> String {
    let n = c.range(0, 40);
    let mut toks: Vec<String> = vec![];
    let mut depth = 0usize;
    for _ in 0..n {
        match c.weighted(&[6, 5, 10, 2, 2]) {
            4 => toks.push(c.choose(ODD_TOKENS).to_string()),
            0 => {
                depth += 1;
                toks.push("(".into())
            }
            1 => {
                depth = depth.saturating_sub(1);
                toks.push(")".into())
            }
            2 => toks.push(c.choose(KEYWORDS).to_string()),
            _ => toks.push(c.choose(&["X", "Y", "foo", "17", "\"s\"", "0xff"]).to_string()),
        }
    }
    if c.chance(128) {
        for _ in 0..depth {
            toks.push(")".into());
        }
    }
    join(&toks)
}

pub fn max_nesting(s: &str) -> usize {
    let mut d = 0usize;
    let mut m = 0usize;
    for ch in s.bytes() {
        if ch == b'(' {
            d += 1;
            m = m.max(d);
        } else if ch == b')' {
            d = d.saturating_sub(1);
        }
    }
    m
}
