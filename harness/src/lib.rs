//! The harness as a library: property modules, generators and the orchestration, shared by the
//! `vcheck` binary and by the libFuzzer targets under fuzz/.
#![allow(dead_code)]
pub mod choices;
pub mod core;
pub mod fuzz;
pub mod gen_clvm;
pub mod gen_lisp;
pub mod gen_text;
pub mod gen_value;
pub mod known;
pub mod orch;
pub mod props;
pub mod reduce;
pub mod refint;
pub mod replay;
pub mod sut;
pub mod worker;
