//! Entry point used by the coverage-guided targets (fuzz/fuzz_targets/*.rs): the fuzzer's bytes
//! are the choice sequence of one case of one section of a property; the semantic oracle of that
//! property runs inside the target.  A violation that no listed finding explains is written as a
//! replay file and turned into a panic (libFuzzer then saves the input as a crash).
use crate::core::*;
use crate::known::Known;
use std::path::PathBuf;
use std::sync::OnceLock;

fn root() -> PathBuf {
    PathBuf::from(std::env::var("VERIF_ROOT").unwrap_or_else(|_| "/verif".to_string()))
}

pub fn run(id: &str, sec: &str, data: &[u8]) {
    static KNOWN: OnceLock<Known> = OnceLock::new();
    static HOOK: OnceLock<()> = OnceLock::new();
    HOOK.get_or_init(|| {
        // keep libFuzzer's own abort-on-panic behaviour, but remember message and place
        let prev = std::panic::take_hook();
        std::panic::set_hook(Box::new(move |info| prev(info)));
    });
    let prop = crate::props::lookup(id).expect("property");
    let known = KNOWN.get_or_init(|| Known::load(&root()));
    let mut st = Stats::default();
    st.scratch = true;
    let verdict = prop.run(sec, &Input::Bytes(data), Tier::Thorough, &mut st);
    if let Verdict::Violation(v) = verdict {
        if let Some(k) = prop.known(&v) {
            if known.active(id, k) {
                return;
            }
        }
        let dir = root().join("replays/found");
        let _ = std::fs::create_dir_all(&dir);
        let name = format!("{id}-fuzz-{:08x}.json", crate::choices::fnv(data) as u32);
        let file = dir.join(name);
        let j = serde_json::json!({"property": id, "section": sec, "tier": "thorough", "choices_hex": hex(data), "signature": v.sig,
            "expected": v.expected, "observed": v.observed, "case": v.case, "found_by": "libFuzzer target"});
        let _ = std::fs::write(&file, serde_json::to_string_pretty(&j).unwrap_or_default());
        eprintln!("VIOLATION property={id} replay={}", file.display());
        panic!("violation {}: expected {} observed {}", v.sig, v.expected, v.observed);
    }
}
