//! known_findings.jsonl: committed, read-only at run time.  An entry suppresses a violation
//! only when (a) its status is "known", (b) the property's own signature predicate
//! (`Prop::known`) maps the shrunk violation to that entry's id.

use serde_json::Value;
use std::path::Path;

#[derive(Clone, Debug)]
pub struct KnownEntry {
    pub status: String,
    pub property: String,
    pub id: String,
    pub what: String,
}

#[derive(Clone, Debug, Default)]
pub struct Known {
    pub entries: Vec<KnownEntry>,
}

impl Known {
    pub fn load(root: &Path) -> Known {
        let mut entries = vec![];
        if let Ok(text) = std::fs::read_to_string(root.join("known_findings.jsonl")) {
            for line in text.lines() {
                let line = line.trim();
                if line.is_empty() || line.starts_with('#') {
                    continue;
                }
                if let Ok(v) = serde_json::from_str::<Value>(line) {
                    let g = |k: &str| v.get(k).and_then(|x| x.as_str()).unwrap_or("").to_string();
                    entries.push(KnownEntry {
                        status: g("status"),
                        property: g("property"),
                        id: g("id"),
                        what: g("what"),
                    });
                }
            }
        }
        Known { entries }
    }
    pub fn active(&self, property: &str, id: &str) -> bool {
        self.entries
            .iter()
            .any(|e| e.status == "known" && e.property == property && e.id == id)
    }
    pub fn what(&self, property: &str, id: &str) -> String {
        self.entries
            .iter()
            .find(|e| e.property == property && e.id == id)
            .map(|e| e.what.clone())
            .unwrap_or_default()
    }
    pub fn listed(&self, property: &str) -> Vec<&KnownEntry> {
        self.entries
            .iter()
            .filter(|e| e.status == "known" && e.property == property)
            .collect()
    }
}
