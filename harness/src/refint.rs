//! Reference semantics for the Chialisp AST (DESIGN §3): a direct, environment-passing,
//! call-by-value interpreter.  Shares no code with the compiler under test; primitive operators
//! are delegated to clvmr on already-evaluated operands.

use crate::gen_lisp::*;
use crate::gen_value::V;
use crate::sut;
use std::collections::HashMap;
use std::rc::Rc;

#[derive(Clone, Debug)]
pub enum RV {
    A(Vec<u8>),
    P(Rc<RV>, Rc<RV>),
    Clo(Rc<Closure>),
    Fun(String),
    Code(Rc<Program>),
}

#[derive(Debug)]
pub struct Closure {
    pub params: Pat,
    pub env: Env,
    pub body: Expr,
}

pub type Env = Rc<EnvNode>;

#[derive(Debug)]
pub enum EnvNode {
    Empty,
    Bind(String, RV, Env),
}

fn lookup(env: &Env, name: &str) -> Option<RV> {
    let mut cur = env;
    loop {
        match &**cur {
            EnvNode::Empty => return None,
            EnvNode::Bind(n, v, next) => {
                if n == name {
                    return Some(v.clone());
                }
                cur = next;
            }
        }
    }
}

fn bind(env: &Env, name: &str, v: RV) -> Env {
    Rc::new(EnvNode::Bind(name.to_string(), v, env.clone()))
}

#[derive(Debug, Clone, PartialEq)]
pub enum Outcome {
    Value(V),
    /// the source-level evaluation raises / applies a partial operator outside its domain
    Fails(String),
    /// opaque value observed, fuel exhausted, or out of the modelled language
    Undefined(String),
}

#[derive(Debug)]
pub enum Stop {
    Fails(String),
    Undefined(String),
}

type R<T> = Result<T, Stop>;

pub fn from_v(v: &V) -> RV {
    match v {
        V::A(b) => RV::A(b.clone()),
        V::P(l, r) => RV::P(Rc::new(from_v(l)), Rc::new(from_v(r))),
    }
}

pub fn to_v(r: &RV) -> Option<V> {
    match r {
        RV::A(b) => Some(V::A(b.clone())),
        RV::P(l, r) => Some(V::P(Rc::new(to_v(l)?), Rc::new(to_v(r)?))),
        _ => None,
    }
}

fn nil() -> RV {
    RV::A(vec![])
}

fn truthy(r: &RV) -> R<bool> {
    match r {
        RV::A(b) => Ok(!b.is_empty()),
        RV::P(_, _) => Ok(true),
        _ => Err(Stop::Undefined("opaque value used as a condition".into())),
    }
}

pub struct Interp<'a> {
    pub prog: &'a Program,
    pub fuel: u64,
    consts: HashMap<String, RV>,
    in_const: Vec<String>,
}

/// independent operator table (name -> opcode bytes)
fn opcode(name: &str) -> Option<Vec<u8>> {
    let v: u32 = match name {
        "i" => 3,
        "c" => 4,
        "f" => 5,
        "r" => 6,
        "l" => 7,
        "x" => 8,
        "=" => 9,
        ">s" => 10,
        "sha256" => 11,
        "substr" => 12,
        "strlen" => 13,
        "concat" => 14,
        "+" => 16,
        "-" => 17,
        "*" => 18,
        "/" => 19,
        "divmod" => 20,
        ">" => 21,
        "ash" => 22,
        "lsh" => 23,
        "logand" => 24,
        "logior" => 25,
        "logxor" => 26,
        "lognot" => 27,
        "point_add" => 29,
        "pubkey_for_exp" => 30,
        "not" => 32,
        "any" => 33,
        "all" => 34,
        "coinid" => 48,
        "modpow" => 60,
        "%" => 61,
        "keccak256" => 62,
        _ => return None,
    };
    Some(vec![v as u8])
}

impl<'a> Interp<'a> {
    pub fn new(prog: &'a Program, fuel: u64) -> Self {
        Interp {
            prog,
            fuel,
            consts: HashMap::new(),
            in_const: vec![],
        }
    }

    fn tick(&mut self) -> R<()> {
        if self.fuel == 0 {
            return Err(Stop::Undefined("fuel exhausted".into()));
        }
        self.fuel -= 1;
        Ok(())
    }

    fn helper<'p>(&self, prog: &'p Program, name: &str) -> Option<&'p Helper> {
        prog.helpers.iter().find(|h| match h {
            Helper::Defun { name: n, .. } | Helper::Defconstant { name: n, .. } | Helper::Defconst { name: n, .. } | Helper::Defmacro { name: n, .. } => n == name,
        })
    }

    fn destructure(&mut self, pat: &Pat, v: &RV, env: Env) -> R<Env> {
        match pat {
            Pat::Nil => Ok(env),
            Pat::Name(n, _) => Ok(bind(&env, n, v.clone())),
            Pat::At(n, p) => {
                let e2 = bind(&env, n, v.clone());
                self.destructure(p, v, e2)
            }
            Pat::Cons(a, b) => match v {
                RV::P(l, r) => {
                    let e2 = self.destructure(a, l, env)?;
                    self.destructure(b, r, e2)
                }
                RV::A(_) => Err(Stop::Fails("destructuring an atom".into())),
                _ => Err(Stop::Undefined("destructuring an opaque value".into())),
            },
        }
    }

    fn prim(&mut self, op: &str, args: Vec<RV>) -> R<RV> {
        // structural operators that may carry opaque values
        match (op, args.as_slice()) {
            ("c", [a, b]) => return Ok(RV::P(Rc::new(a.clone()), Rc::new(b.clone()))),
            ("f", [RV::P(a, _)]) => return Ok((**a).clone()),
            ("r", [RV::P(_, b)]) => return Ok((**b).clone()),
            ("f", [RV::A(_)]) | ("r", [RV::A(_)]) => return Err(Stop::Fails(format!("{op} of an atom"))),
            ("i", [c, a, b]) => return Ok(if truthy(c)? { a.clone() } else { b.clone() }),
            ("x", _) => return Err(Stop::Fails("raise".into())),
            _ => {}
        }
        let mut vs = vec![];
        for a in &args {
            match to_v(a) {
                Some(v) => vs.push(v),
                None => return Err(Stop::Undefined(format!("opaque operand of {op}"))),
            }
        }
        let Some(code) = opcode(op) else {
            return Err(Stop::Undefined(format!("operator {op} not modelled")));
        };
        let prog = crate::gen_value::cons(
            V::A(code),
            crate::gen_value::list(vs.iter().map(|v| crate::gen_value::cons(crate::gen_value::int(1), v.clone())).collect()),
        );
        match sut::run_consensus(&prog, &crate::gen_value::nil(), 2_000_000_000) {
            Ok(v) => Ok(from_v(&v)),
            Err(m) => {
                if sut::is_cost_exceeded(&m) {
                    Err(Stop::Undefined("operator cost limit".into()))
                } else {
                    Err(Stop::Fails(format!("{op}: {m}")))
                }
            }
        }
    }

    fn constant(&mut self, prog: &Program, name: &str) -> R<Option<RV>> {
        if let Some(v) = self.consts.get(name) {
            return Ok(Some(v.clone()));
        }
        match self.helper(prog, name) {
            Some(Helper::Defconstant { value, .. }) => {
                let v = from_v(value);
                self.consts.insert(name.to_string(), v.clone());
                Ok(Some(v))
            }
            Some(Helper::Defconst { expr, .. }) => {
                if self.in_const.iter().any(|n| n == name) {
                    return Err(Stop::Undefined("cyclic constant".into()));
                }
                self.in_const.push(name.to_string());
                let v = self.eval(prog, expr, &Rc::new(EnvNode::Empty))?;
                self.in_const.pop();
                self.consts.insert(name.to_string(), v.clone());
                Ok(Some(v))
            }
            _ => Ok(None),
        }
    }

    fn call_function(&mut self, prog: &Program, name: &str, argv: RV) -> R<RV> {
        self.tick()?;
        match self.helper(prog, name) {
            Some(Helper::Defun { params, body, .. }) => {
                let env = self.destructure(params, &argv, Rc::new(EnvNode::Empty))?;
                self.eval(prog, body, &env)
            }
            _ => Err(Stop::Undefined(format!("call of unknown function {name}"))),
        }
    }

    pub fn apply_value(&mut self, prog: &Program, f: &RV, argv: RV) -> R<RV> {
        self.tick()?;
        match f {
            RV::Clo(c) => {
                let env = self.destructure(&c.params, &argv, c.env.clone())?;
                // closure bodies are expressions of the program that created them
                let body = c.body.clone();
                self.eval_owned(prog, body, &env)
            }
            RV::Fun(name) => self.call_function(prog, name, argv),
            RV::Code(p) => {
                let p2: Rc<Program> = p.clone();
                // evaluate the nested module with its own helpers
                let mut inner = Interp::new(&p2, self.fuel);
                let r = inner.run_rv(argv);
                self.fuel = inner.fuel;
                r
            }
            _ => Err(Stop::Undefined("applying data as code".into())),
        }
    }

    fn eval_owned(&mut self, prog: &Program, e: Expr, env: &Env) -> R<RV> {
        self.eval(prog, &e, env)
    }

    fn expand_macro(&mut self, prog: &Program, name: &str, args: &[Expr]) -> R<Expr> {
        match self.helper(prog, name) {
            Some(Helper::Defmacro { kind, .. }) => Ok(match kind {
                MacroKind::BinOp(op) => Expr::Prim(op, vec![args[0].clone(), args[1].clone()]),
                MacroKind::IfLike => Expr::If(Box::new(args[0].clone()), Box::new(args[1].clone()), Box::new(args[2].clone())),
                MacroKind::Pairlist => Expr::Prim("c", vec![args[0].clone(), Expr::Prim("c", vec![args[1].clone(), Expr::Nil])]),
                MacroKind::Twice(other) => Expr::MacroCall {
                    name: other.clone(),
                    args: vec![args[0].clone(), args[0].clone()],
                },
                MacroKind::CallFn(f) => Expr::Call {
                    f: f.clone(),
                    args: vec![args[0].clone()],
                    rest: None,
                },
            }),
            _ => Err(Stop::Undefined(format!("unknown macro {name}"))),
        }
    }

    pub fn eval(&mut self, prog: &Program, e: &Expr, env: &Env) -> R<RV> {
        self.tick()?;
        match e {
            Expr::Int(n) => Ok(RV::A(int_bytes_big(n))),
            Expr::Str(b) | Expr::Hex(b) => Ok(RV::A(b.clone())),
            Expr::Nil => Ok(nil()),
            Expr::Quote(v) => Ok(from_v(v)),
            Expr::Var(n) => {
                if let Some(v) = lookup(env, n) {
                    return Ok(v);
                }
                if let Some(v) = self.constant(prog, n)? {
                    return Ok(v);
                }
                Err(Stop::Undefined(format!("unbound variable {n}")))
            }
            Expr::FunRef(n) => Ok(RV::Fun(n.clone())),
            Expr::If(c, a, b) => {
                let cv = self.eval(prog, c, env)?;
                if truthy(&cv)? {
                    self.eval(prog, a, env)
                } else {
                    self.eval(prog, b, env)
                }
            }
            Expr::Prim(op, args) => {
                let mut vs = vec![];
                for a in args {
                    vs.push(self.eval(prog, a, env)?);
                }
                self.prim(op, vs)
            }
            Expr::List(items) => {
                let mut vs = vec![];
                for a in items {
                    vs.push(self.eval(prog, a, env)?);
                }
                let mut r = nil();
                for v in vs.into_iter().rev() {
                    r = RV::P(Rc::new(v), Rc::new(r));
                }
                Ok(r)
            }
            Expr::QQList(items) => {
                let mut vs = vec![];
                for it in items {
                    match it {
                        Ok(v) => vs.push(from_v(v)),
                        Err(e) => vs.push(self.eval(prog, e, env)?),
                    }
                }
                let mut r = nil();
                for v in vs.into_iter().rev() {
                    r = RV::P(Rc::new(v), Rc::new(r));
                }
                Ok(r)
            }
            Expr::Call { f, args, rest } => {
                let mut vs = vec![];
                for a in args {
                    vs.push(self.eval(prog, a, env)?);
                }
                let mut tail = match rest {
                    Some(r) => self.eval(prog, r, env)?,
                    None => nil(),
                };
                for v in vs.into_iter().rev() {
                    tail = RV::P(Rc::new(v), Rc::new(tail));
                }
                self.call_function(prog, f, tail)
            }
            Expr::Let { star, binds, body } => {
                let mut inner = env.clone();
                if *star {
                    for (n, e) in binds {
                        let v = self.eval(prog, e, &inner)?;
                        inner = bind(&inner, n, v);
                    }
                } else {
                    let mut vals = vec![];
                    for (n, e) in binds {
                        vals.push((n, self.eval(prog, e, env)?));
                    }
                    for (n, v) in vals {
                        inner = bind(&inner, n, v);
                    }
                }
                self.eval(prog, body, &inner)
            }
            Expr::Assign { binds, order, body, .. } => {
                let mut inner = env.clone();
                for pos in order {
                    let (p, e) = &binds[*pos];
                    let v = self.eval(prog, e, &inner)?;
                    inner = self.destructure(p, &v, inner)?;
                }
                self.eval(prog, body, &inner)
            }
            Expr::Lambda { caps, params, body } => {
                let mut cenv: Env = Rc::new(EnvNode::Empty);
                for c in caps {
                    let v = match lookup(env, c) {
                        Some(v) => v,
                        None => match self.constant(prog, c)? {
                            Some(v) => v,
                            None => return Err(Stop::Undefined(format!("unbound capture {c}"))),
                        },
                    };
                    cenv = bind(&cenv, c, v);
                }
                Ok(RV::Clo(Rc::new(Closure {
                    params: params.clone(),
                    env: cenv,
                    body: (**body).clone(),
                })))
            }
            Expr::Apply(f, a) => {
                let fv = self.eval(prog, f, env)?;
                let av = self.eval(prog, a, env)?;
                self.apply_value(prog, &fv, av)
            }
            Expr::MacroCall { name, args } => {
                let expanded = self.expand_macro(prog, name, args)?;
                self.eval_owned(prog, expanded, env)
            }
            Expr::ModExpr(p) => Ok(RV::Code(Rc::new((**p).clone()))),
        }
    }

    fn run_rv(&mut self, args: RV) -> R<RV> {
        let prog = self.prog;
        let env = self.destructure(&prog.params, &args, Rc::new(EnvNode::Empty))?;
        self.eval(prog, &prog.body, &env)
    }

    pub fn run(&mut self, args: &V) -> Outcome {
        match self.run_rv(from_v(args)) {
            Ok(v) => match to_v(&v) {
                Some(v) => Outcome::Value(v),
                None => Outcome::Undefined("program returns an opaque value".into()),
            },
            Err(Stop::Fails(m)) => Outcome::Fails(m),
            Err(Stop::Undefined(m)) => Outcome::Undefined(m),
        }
    }

    /// call one named function of the program on an argument-list value (C13)
    pub fn run_function(&mut self, name: &str, args: &V) -> Outcome {
        let prog = self.prog;
        match self.call_function(prog, name, from_v(args)) {
            Ok(v) => match to_v(&v) {
                Some(v) => Outcome::Value(v),
                None => Outcome::Undefined("function returns an opaque value".into()),
            },
            Err(Stop::Fails(m)) => Outcome::Fails(m),
            Err(Stop::Undefined(m)) => Outcome::Undefined(m),
        }
    }
}

pub fn reference(prog: &Program, args: &V) -> Outcome {
    Interp::new(prog, 200_000).run(args)
}
