//! Replay files: JSON written on violation.  `case` holds the readable fields; a property that
//! implements `Prop::replay` re-runs the case from those (bypassing proptest and the decoder);
//! otherwise the recorded choice bytes / enumeration index are decoded again.

use crate::core::*;
use serde_json::Value;
use std::path::Path;

pub fn committed_replays(root: &Path, id: &str) -> Vec<(String, Value)> {
    let mut out = vec![];
    for sub in ["replays/regress", "replays/known"] {
        let dir = root.join(sub).join(id);
        let mut names: Vec<_> = match std::fs::read_dir(&dir) {
            Ok(rd) => rd.filter_map(|e| e.ok()).map(|e| e.path()).collect(),
            Err(_) => vec![],
        };
        names.sort();
        for p in names {
            if p.extension().map(|e| e == "json").unwrap_or(false) {
                if let Ok(t) = std::fs::read_to_string(&p) {
                    if let Ok(v) = serde_json::from_str::<Value>(&t) {
                        out.push((p.to_string_lossy().to_string(), v));
                    }
                }
            }
        }
    }
    out
}

pub fn run_replay(prop: &dyn Prop, file: &Value, tier: Tier, st: &mut Stats) -> Verdict {
    let r = std::panic::catch_unwind(std::panic::AssertUnwindSafe(|| {
        if let Some(case) = file.get("case") {
            if !case.is_null() {
                if let Some(v) = prop.replay(case, st) {
                    return v;
                }
            }
        }
        let sec = file.get("section").and_then(|s| s.as_str()).unwrap_or("");
        // choices decode differently per tier (size parameters): decode them the way the run that
        // wrote the file did
        let tier = match file.get("tier").and_then(|s| s.as_str()) {
            Some("thorough") => Tier::Thorough,
            Some("quick") => Tier::Quick,
            _ => tier,
        };
        if let Some(h) = file.get("choices_hex").and_then(|s| s.as_str()) {
            if let Ok(b) = hex::decode(h) {
                return prop.run(sec, &Input::Bytes(&b), tier, st);
            }
        }
        if let Some(i) = file.get("index").and_then(|s| s.as_u64()) {
            return prop.run(sec, &Input::Index(i), tier, st);
        }
        Verdict::Skip("replay file has neither a replayable case nor choices")
    }));
    match r {
        Ok(v) => v,
        Err(_) => {
            let (loc, msg) = crate::worker::take_panic();
            Verdict::Violation(Box::new(Viol::new(
                &format!("panic@{loc}"),
                "no panic",
                format!("panic at {loc}: {}", msg.chars().take(300).collect::<String>()),
                file.get("case").cloned().unwrap_or(Value::Null),
            )))
        }
    }
}
