//! Thin adapters around the public API of the crate under test, and around clvmr (the
//! consensus evaluator / serializer / tree hash).

use crate::gen_value::V;
use chialisp::classic::clvm::__type_compatibility__::{Bytes, BytesFromType, Stream};
use chialisp::classic::clvm::serialize::{sexp_from_stream, sexp_to_stream, SimpleCreateCLVMObject};
use chialisp::classic::clvm_tools::stages::stage_0::{DefaultProgramRunner, RunProgramOption, TRunProgram};
use chialisp::compiler::clvm::{convert_from_clvm_rs, convert_to_clvm_rs, NewStyleIntConversion};
use chialisp::compiler::sexp::SExp;
use chialisp::compiler::srcloc::Srcloc;
use clvmr::allocator::{Allocator, NodePtr};
use clvmr::chia_dialect::{ChiaDialect, ENABLE_KECCAK_OPS_OUTSIDE_GUARD, NO_UNKNOWN_OPS};
use std::rc::Rc;

pub fn loc() -> Srcloc {
    Srcloc::start("*verif*")
}

/// run `f` with the thread's integer-conversion mode set to `new_mode`, restoring afterwards
pub fn with_int_mode<T>(new_mode: bool, f: impl FnOnce() -> T) -> T {
    let _g = NewStyleIntConversion::new(new_mode);
    f()
}

/// the ambient integer mode, observed through the public API: Integer(0) converts to nil
/// only in the new mode.
pub fn ambient_int_mode() -> bool {
    let mut a = Allocator::new();
    let z = Rc::new(SExp::Integer(loc(), 0.into()));
    match convert_to_clvm_rs(&mut a, z) {
        Ok(n) => a.atom_len(n) == 0,
        Err(_) => true,
    }
}

pub fn to_rich(v: &V, new_mode: bool) -> Result<Rc<SExp>, String> {
    with_int_mode(new_mode, || {
        let mut a = Allocator::new();
        let n = v.to_node(&mut a);
        convert_from_clvm_rs(&mut a, loc(), n).map_err(|e| format!("{e:?}"))
    })
}

pub fn from_rich(r: Rc<SExp>, new_mode: bool) -> Result<V, String> {
    with_int_mode(new_mode, || {
        let mut a = Allocator::new();
        let n = convert_to_clvm_rs(&mut a, r).map_err(|e| format!("{e:?}"))?;
        Ok(V::from_node(&a, n))
    })
}

/// consensus evaluator: clvmr with the flags the tools use for the latest operator set
pub fn run_consensus(prog: &V, env: &V, max_cost: u64) -> Result<V, String> {
    let mut a = Allocator::new();
    let p = prog.to_node(&mut a);
    let e = env.to_node(&mut a);
    run_consensus_nodes(&mut a, p, e, max_cost).map(|n| V::from_node(&a, n))
}

pub fn run_consensus_nodes(a: &mut Allocator, p: NodePtr, e: NodePtr, max_cost: u64) -> Result<NodePtr, String> {
    let d = ChiaDialect::new(NO_UNKNOWN_OPS | ENABLE_KECCAK_OPS_OUTSIDE_GUARD);
    clvmr::run_program(a, &d, p, e, max_cost)
        .map(|r| r.1)
        .map_err(|e| format!("{e}"))
}

pub fn is_cost_exceeded(msg: &str) -> bool {
    msg.contains("cost exceeded") || msg.contains("Cost exceeded") || msg.contains("CostExceeded")
}

/// the tools' own runner object (what brun / the compiler use)
pub fn run_tool_runner(prog: &V, env: &V, max_cost: u64, version: usize) -> Result<V, String> {
    let mut a = Allocator::new();
    let p = prog.to_node(&mut a);
    let e = env.to_node(&mut a);
    let r = DefaultProgramRunner::new().run_program(
        &mut a,
        p,
        e,
        Some(RunProgramOption {
            max_cost: Some(max_cost),
            operators_version: version,
            ..RunProgramOption::default()
        }),
    );
    r.map(|r| V::from_node(&a, r.1)).map_err(|e| format!("{e}"))
}

pub fn classic_serialize(v: &V) -> Vec<u8> {
    let mut a = Allocator::new();
    let n = v.to_node(&mut a);
    let mut s = Stream::new(None);
    sexp_to_stream(&mut a, n, &mut s);
    let val = s.get_value();
    val.data()[..s.get_length()].to_vec()
}

pub fn classic_deserialize(b: &[u8]) -> Result<V, String> {
    let mut a = Allocator::new();
    let mut s = Stream::new(Some(Bytes::new(Some(BytesFromType::Raw(b.to_vec())))));
    sexp_from_stream(&mut a, &mut s, Box::new(SimpleCreateCLVMObject {}))
        .map(|r| V::from_node(&a, r.1))
        .map_err(|e| format!("{e}"))
}

pub fn consensus_serialize(v: &V) -> Vec<u8> {
    let mut a = Allocator::new();
    let n = v.to_node(&mut a);
    clvmr::serde::node_to_bytes_limit(&a, n, usize::MAX).expect("node_to_bytes")
}

pub fn consensus_deserialize(b: &[u8]) -> Result<V, String> {
    let mut a = Allocator::new();
    clvmr::serde::node_from_bytes(&mut a, b)
        .map(|n| V::from_node(&a, n))
        .map_err(|e| format!("{e}"))
}

pub fn consensus_treehash(v: &V) -> Vec<u8> {
    let ser = v.ser();
    let mut cur = std::io::Cursor::new(&ser[..]);
    clvmr::serde::tree_hash_from_stream(&mut cur).expect("tree hash").to_vec()
}

pub fn parse_one(text: &str) -> Result<Rc<SExp>, String> {
    let r = chialisp::compiler::sexp::parse_sexp(loc(), text.bytes()).map_err(|e| format!("{}: {}", e.0, e.1))?;
    if r.len() != 1 {
        return Err(format!("parsed {} forms", r.len()));
    }
    Ok(r[0].clone())
}

/// the tool's own stepping evaluator (compiler::clvm::run), fixed integer mode
pub fn run_stepper(prog: Rc<SExp>, env: &V, step_limit: usize) -> Result<V, String> {
    let envr = to_rich(env, true)?;
    run_stepper_rich(prog, envr, step_limit, true)
}

pub fn run_stepper_rich(prog: Rc<SExp>, env: Rc<SExp>, step_limit: usize, mode: bool) -> Result<V, String> {
    with_int_mode(mode, || {
        let mut a = Allocator::new();
        let runner: Rc<dyn TRunProgram> = Rc::new(DefaultProgramRunner::new());
        let r = chialisp::compiler::clvm::run(
            &mut a,
            runner,
            chialisp::compiler::prims::prim_map(),
            prog,
            env,
            None,
            Some(step_limit),
        );
        match r {
            Ok(v) => {
                let n = convert_to_clvm_rs(&mut a, v).map_err(|e| format!("{e:?}"))?;
                Ok(V::from_node(&a, n))
            }
            Err(e) => Err(format!("{e:?}")),
        }
    })
}

pub fn is_step_timeout(msg: &str) -> bool {
    msg.contains("\"timeout\"")
}

/// the library entry point used by the bindings and by file-to-file compilation
/// (`compile_clvm_text_maybe_opt`): handles classic and every sigil
pub fn compile_lib(text: &str, do_optimize: bool, search: &[String]) -> Result<V, String> {
    compile_lib_sym(text, do_optimize, search, "*verif*.clsp").map(|x| x.0)
}

pub fn compile_lib_sym(
    text: &str,
    do_optimize: bool,
    search: &[String],
    filename: &str,
) -> Result<(V, std::collections::HashMap<String, String>), String> {
    use chialisp::compiler::comptypes::CompilerOpts;
    let mut a = Allocator::new();
    let mut syms = std::collections::HashMap::new();
    let opts: Rc<dyn CompilerOpts> =
        Rc::new(chialisp::compiler::compiler::DefaultCompilerOpts::new(filename)).set_search_paths(search);
    let r = chialisp::classic::clvm_tools::clvmc::compile_clvm_text_maybe_opt(
        &mut a,
        do_optimize,
        opts.clone(),
        &mut syms,
        text,
        filename,
        true,
    );
    match r {
        Ok(n) => Ok((V::from_node(&a, n), syms)),
        Err(e) => Err(e.format(&a, opts)),
    }
}

/// facts about the consensus evaluation of (prog, env), observed through clvmr's pre-eval hook:
/// used by known-finding predicates so that they match exactly the mechanism they excuse
#[derive(Default, Debug, Clone)]
pub struct TraceFlags {
    /// some evaluated sub-expression, its environment or its result is / contains as a direct
    /// atom an atom of length >= 1 consisting only of zero bytes
    pub zero_atom_seen: bool,
    /// some evaluated form has a pair as its operator: ((X) . args)
    pub pair_head_evaluated: bool,
    /// some evaluated form has an operator atom with a redundant leading byte
    pub padded_operator_evaluated: bool,
}

fn is_zero_atom(a: &Allocator, n: NodePtr) -> bool {
    match a.sexp(n) {
        clvmr::allocator::SExp::Atom => {
            let at = a.atom(n);
            let b = at.as_ref();
            !b.is_empty() && b.iter().all(|x| *x == 0)
        }
        _ => false,
    }
}

fn contains_zero_atom(a: &Allocator, n: NodePtr, budget: &mut usize) -> bool {
    if *budget == 0 {
        return false;
    }
    *budget -= 1;
    match a.sexp(n) {
        clvmr::allocator::SExp::Atom => is_zero_atom(a, n),
        clvmr::allocator::SExp::Pair(l, r) => contains_zero_atom(a, l, budget) || contains_zero_atom(a, r, budget),
    }
}

pub fn consensus_trace(prog: &V, env: &V, max_cost: u64) -> TraceFlags {
    use std::cell::RefCell;
    let flags = Rc::new(RefCell::new(TraceFlags::default()));
    let mut a = Allocator::new();
    let p = prog.to_node(&mut a);
    let e = env.to_node(&mut a);
    {
        let mut budget = 100_000usize;
        if contains_zero_atom(&a, p, &mut budget) || contains_zero_atom(&a, e, &mut budget) {
            flags.borrow_mut().zero_atom_seen = true;
        }
    }
    let f2 = flags.clone();
    let pre: clvmr::run_program::PreEval = Box::new(move |a: &mut Allocator, prog: NodePtr, _env: NodePtr| {
        if let clvmr::allocator::SExp::Pair(op, _) = a.sexp(prog) {
            match a.sexp(op) {
                clvmr::allocator::SExp::Pair(_, _) => f2.borrow_mut().pair_head_evaluated = true,
                clvmr::allocator::SExp::Atom => {
                    let at = a.atom(op);
                    let b = at.as_ref();
                    if b.len() >= 2 && ((b[0] == 0 && b[1] & 0x80 == 0) || (b[0] == 0xff && b[1] & 0x80 != 0)) {
                        f2.borrow_mut().padded_operator_evaluated = true;
                    }
                }
            }
        }
        let f3 = f2.clone();
        let post: Box<clvmr::run_program::PostEval> = Box::new(move |a: &mut Allocator, r: Option<NodePtr>| {
            if let Some(r) = r {
                let mut budget = 2000usize;
                if contains_zero_atom(a, r, &mut budget) {
                    f3.borrow_mut().zero_atom_seen = true;
                }
            }
        });
        Ok(Some(post))
    });
    let d = ChiaDialect::new(NO_UNKNOWN_OPS | ENABLE_KECCAK_OPS_OUTSIDE_GUARD);
    let _ = clvmr::run_program::run_program_with_pre_eval(&mut a, &d, p, e, max_cost, Some(pre));
    let out = flags.borrow().clone();
    out
}

// ---------------------------------------------------------------------------------------------
// modern compiler with explicit option sets

#[derive(Clone, Copy, Debug, PartialEq, Eq)]
pub struct ModernOpts {
    pub optimize: bool,
    pub frontend_opt: bool,
    /// run the classic CLVM optimiser over the output (what -O / the library path do)
    pub post_opt: bool,
}

impl ModernOpts {
    /// what the command line derives for a sigil without -O
    pub fn cli_default(stepping: i32) -> ModernOpts {
        ModernOpts {
            optimize: stepping > 22,
            frontend_opt: stepping == 22,
            post_opt: false,
        }
    }
    pub fn name(&self) -> String {
        format!(
            "opt={} fe={} post={}",
            self.optimize as u8, self.frontend_opt as u8, self.post_opt as u8
        )
    }
}

pub struct Compiled {
    pub rich: Rc<SExp>,
    pub code: V,
    pub symbols: std::collections::HashMap<String, String>,
}

pub fn accepted_dialect(sigil: &str) -> chialisp::compiler::dialect::AcceptedDialect {
    chialisp::compiler::dialect::KNOWN_DIALECTS
        .get(sigil)
        .map(|d| d.accepted.clone())
        .unwrap_or_default()
}

pub fn compile_modern(
    text: &str,
    sigil: &str,
    mo: ModernOpts,
    filename: &str,
    search: &[String],
) -> Result<Compiled, (chialisp::compiler::srcloc::Srcloc, String)> {
    use chialisp::compiler::comptypes::CompilerOpts;
    let mut a = Allocator::new();
    let mut symbols = std::collections::HashMap::new();
    let runner: Rc<dyn TRunProgram> = Rc::new(DefaultProgramRunner::new());
    let opts: Rc<dyn CompilerOpts> = Rc::new(chialisp::compiler::compiler::DefaultCompilerOpts::new(filename))
        .set_dialect(accepted_dialect(sigil))
        .set_search_paths(search)
        .set_optimize(mo.optimize)
        .set_frontend_opt(mo.frontend_opt);
    let unopt = chialisp::compiler::compiler::compile_file(&mut a, runner.clone(), opts.clone(), text, &mut symbols)
        .map_err(|e| (e.0, e.1))?;
    let res = chialisp::compiler::optimize::maybe_finalize_program_via_classic_optimizer(
        &mut a,
        runner,
        opts,
        mo.post_opt,
        &unopt,
    )
    .map_err(|e| (e.0, e.1))?;
    // the output is converted in the thread's ambient (fixed) mode, as run/cldb/the library do
    let n = convert_to_clvm_rs(&mut a, res.clone()).map_err(|e| (loc(), format!("{e:?}")))?;
    Ok(Compiled {
        rich: res,
        code: V::from_node(&a, n),
        symbols,
    })
}
