//! C12 — the debugger's trace is a faithful account of the real execution.

use crate::choices::{fnv, Choices};
use crate::core::*;
use crate::gen_clvm::gen_program;
use crate::gen_lisp::*;
use crate::gen_value::*;
use crate::props::c01::{decode_case, RUN_COST};
use crate::sut::{self, ModernOpts};
use chialisp::classic::clvm_tools::cmds::{cldb_hierarchy, CldbHierarchyArgs, YamlElement};
use chialisp::classic::clvm_tools::stages::stage_0::{DefaultProgramRunner, TRunProgram};
use chialisp::compiler::cldb::{hex_to_modern_sexp, CldbNoOverride, CldbRun, CldbRunEnv};
use chialisp::compiler::clvm::start_step;
use chialisp::compiler::sexp::SExp;
use serde_json::{json, Value};
use std::collections::{BTreeMap, HashMap};
use std::rc::Rc;

pub struct C12Prop;
pub static C12: C12Prop = C12Prop;

const MAX_STEPS: usize = 400_000;
type Row = BTreeMap<String, String>;

pub fn trace(prog: Rc<SExp>, env: Rc<SExp>, lines: Vec<String>) -> Option<Vec<Row>> {
    sut::with_int_mode(true, || {
        let mut a = clvmr::Allocator::new();
        let runner: Rc<dyn TRunProgram> = Rc::new(DefaultProgramRunner::new());
        let cldbenv = CldbRunEnv::new(None, Rc::new(lines), Box::new(CldbNoOverride::new()));
        let mut run = CldbRun::new(runner, chialisp::compiler::prims::prim_map(), Box::new(cldbenv), start_step(prog, env));
        let mut rows = vec![];
        let mut n = 0;
        while !run.is_ended() {
            n += 1;
            if n > MAX_STEPS {
                return None;
            }
            if let Some(r) = run.step(&mut a) {
                rows.push(r);
            }
        }
        Some(rows)
    })
}

fn read_val(text: &str) -> Option<V> {
    sut::with_int_mode(true, || sut::parse_one(text).ok().and_then(|r| sut::from_rich(r, true).ok()))
}

/// equal except at atoms where one side's bytes are text (0x41, 65, -3) that reads to the other
/// side's bytes
fn same_up_to_spelling(a: &V, b: &V) -> bool {
    fn reads_to(text: &[u8], bytes: &[u8]) -> bool {
        std::str::from_utf8(text)
            .ok()
            .filter(|t| !t.is_empty() && t.chars().all(|c| c.is_ascii_alphanumeric() || c == '-'))
            .and_then(read_val)
            .map(|v| matches!(&v, V::A(x) if x.as_slice() == bytes))
            .unwrap_or(false)
    }
    match (a, b) {
        (V::A(x), V::A(y)) => x == y || reads_to(x, y) || reads_to(y, x),
        (V::P(a1, a2), V::P(b1, b2)) => same_up_to_spelling(a1, b1) && same_up_to_spelling(a2, b2),
        _ => false,
    }
}

/// a row modulo location fields, with every value field re-read (the two input forms may spell
/// the same value differently: 0x0100 vs 256)
fn strip_locations(r: &Row) -> Row {
    r.iter()
        .filter(|(k, _)| !k.ends_with("-Location") && k.as_str() != "Function")
        .map(|(k, v)| {
            let nv = match k.as_str() {
                "Row" | "Argument-Refs" => v.clone(),
                // the message embeds printed values; its presence is what is compared
                "Failure" => "failure".to_string(),
                _ => read_val(v).map(|x| x.show()).unwrap_or_else(|| v.clone()),
            };
            (k.clone(), nv)
        })
        .collect()
}

/// judge the trace of one (program value, env value); `rich` is the source-located form when there
/// is one (compiler output), otherwise the fixed-mode conversion
pub fn judge(code: &V, env: &V, rich: Option<Rc<SExp>>, symbols: &HashMap<String, String>, source_lines: Vec<String>, st: &mut Stats) -> Result<Option<(usize, bool)>, Viol> {
    let reference = sut::run_consensus(code, env, RUN_COST);
    if let Err(m) = &reference {
        if sut::is_cost_exceeded(m) {
            return Ok(None);
        }
    }
    let prog_rich = match rich {
        Some(r) => r,
        None => match sut::to_rich(code, true) {
            Ok(r) => r,
            Err(_) => return Ok(None),
        },
    };
    // the command line reads the environment argument with the modern reader
    let env_text = crate::gen_lisp::render_data(env);
    let env_rich = match sut::with_int_mode(true, || sut::parse_one(&env_text)) {
        Ok(e) => e,
        Err(_) => return Ok(None),
    };
    match sut::from_rich(env_rich.clone(), true) {
        Ok(e2) if &e2 == env => {}
        _ => return Ok(None),
    }
    let Some(rows) = trace(prog_rich.clone(), env_rich.clone(), source_lines.clone()) else {
        st.label("step-cap(skip)");
        return Ok(None);
    };
    let case = |extra: Value| {
        json!({"program_hex": hex(&code.ser()), "program": crate::props::c01::disasm(code), "env": env.show(), "env_hex": hex(&env.ser()), "detail": extra})
    };
    // (1) the end of the trace
    let last = rows.last().cloned().unwrap_or_default();
    match &reference {
        Ok(v) => match last.get("Final") {
            Some(t) => match read_val(t) {
                Some(fv) if &fv == v => {}
                other => {
                    return Err(Viol::new("final-differs-from-consensus", v.show(), format!("Final: {t} (read back as {:?})", other.map(|x| x.show())), case(json!({"last_row": last}))))
                }
            },
            None => return Err(Viol::new("trace-ends-in-failure-consensus-returns", format!("Final {}", v.show()), format!("{last:?}"), case(json!({"last_row": last})))),
        },
        Err(m) => {
            if last.contains_key("Final") {
                return Err(Viol::new("trace-ends-in-final-consensus-fails", format!("failure: {m}"), format!("Final: {}", last["Final"]), case(json!({"last_row": last}))));
            }
        }
    }
    // (2) every row with operator, arguments and value is true of the consensus evaluator
    let mut checked_rows = 0;
    let mut has_apply = false;
    let mut expect_row = 0usize;
    for (ri, r) in rows.iter().enumerate() {
        if let Some(n) = r.get("Row") {
            // (3) consecutive numbering
            if n.parse::<usize>().ok() != Some(expect_row) {
                return Err(Viol::new("row-numbers-not-consecutive", expect_row.to_string(), n.clone(), case(json!({"row_index": ri, "row": r}))));
            }
        }
        expect_row += 1;
        if r.get("Operator").map(|o| o == "2").unwrap_or(false) {
            has_apply = true;
        }
        if let (Some(op), Some(args), Some(val)) = (r.get("Operator"), r.get("Arguments"), r.get("Value")) {
            let (Some(opv), Some(argv), Some(valv)) = (read_val(op), read_val(args), read_val(val)) else {
                st.label("row-text-not-readable(skip)");
                continue;
            };
            let mut items = vec![];
            let mut cur = &argv;
            while let V::P(x, rest) = cur {
                items.push(cons(int(1), (**x).clone()));
                cur = rest;
            }
            let p = cons(opv, list(items));
            match sut::run_consensus(&p, &nil(), RUN_COST) {
                Ok(v) if v == valv => checked_rows += 1,
                other => {
                    return Err(Viol::new(
                        "row-not-true-of-consensus",
                        format!("({op} {args}) => {}", other.map(|v| v.show()).unwrap_or_else(|e| format!("error {e}"))),
                        format!("Value: {val}"),
                        case(json!({"row_index": ri, "row": r})),
                    ))
                }
            }
        }
    }
    // (4) hex input behaves like source input (modulo locations)
    let hx = hex(&code.ser());
    let mut a = clvmr::Allocator::new();
    if let (Ok(ph), Ok(eh)) = (hex_to_modern_sexp(&mut a, symbols, sut::loc(), &hx), hex_to_modern_sexp(&mut a, &HashMap::new(), sut::loc(), &hex(&env.ser()))) {
        if let Some(rows_h) = trace(ph, eh, vec![]) {
            // a value printed as a bare word the reader does not take back (the source form prints
            // the atom 0x23 as #) cannot be compared through its text: such fields are left out on
            // both sides (counted), everything else must agree
            let mut a1: Vec<Row> = rows.iter().map(strip_locations).collect();
            let mut a2: Vec<Row> = rows_h.iter().map(strip_locations).collect();
            if a1.len() == a2.len() {
                for (ri, (x, y)) in a1.iter_mut().zip(a2.iter_mut()).enumerate() {
                    let keys: Vec<String> = x.keys().filter(|k| !matches!(k.as_str(), "Row" | "Argument-Refs" | "Failure")).cloned().collect();
                    for k in keys {
                        let unreadable = |r: &Row| r.get(&k).map(|t| read_val(t).is_none()).unwrap_or(false);
                        if unreadable(x) || unreadable(y) {
                            x.remove(&k);
                            y.remove(&k);
                            st.label("hex-vs-source:field-not-re-readable(skipped)");
                            continue;
                        }
                        // the same for a bare word that reads back as something else: the source
                        // form prints the 4-byte atom "0x41" (a string literal that went through a
                        // macro) as 0x41, which reads as one byte.  Fields that differ in nothing
                        // but atoms where one side holds the bytes the other side's text reads to
                        // say the same thing in two spellings
                        if x.get(&k) != y.get(&k) {
                            let raw = |rs: &[Row]| rs.get(ri).and_then(|r| r.get(&k)).and_then(|t| read_val(t));
                            if let (Some(vs), Some(vh)) = (raw(&rows), raw(&rows_h)) {
                                if same_up_to_spelling(&vs, &vh) {
                                    x.remove(&k);
                                    y.remove(&k);
                                    st.label("hex-vs-source:bare-word-that-reads-as-a-number(skipped)");
                                }
                            }
                        }
                    }
                }
            }
            if a1 != a2 {
                let i = a1.iter().zip(a2.iter()).position(|(x, y)| x != y).unwrap_or(a1.len().min(a2.len()));
                return Err(Viol::new(
                    "hex-input-trace-differs-from-source-input",
                    format!("{:?}", a1.get(i)),
                    format!("{:?}", a2.get(i)),
                    case(json!({"first_differing_row": i, "rows_source": a1.len(), "rows_hex": a2.len()})),
                ));
            }
            st.label("hex-vs-source-compared");
        }
    }
    // (5) hierarchical view: last entry's Final agrees; function names come from the symbol table
    let runner: Rc<dyn TRunProgram> = Rc::new(DefaultProgramRunner::new());
    let tree = sut::with_int_mode(true, || {
        cldb_hierarchy(CldbHierarchyArgs {
            runner,
            prim_map: chialisp::compiler::prims::prim_map(),
            input_file_name: None,
            lines: Rc::new(source_lines),
            symbol_table: Rc::new(symbols.clone()),
            prog: prog_rich,
            args: env_rich,
            flags: 0,
        })
    });
    if let Ok(v) = &reference {
        fn find_final(e: &BTreeMap<String, YamlElement>) -> Option<String> {
            if let Some(YamlElement::String(s)) = e.get("Final") {
                return Some(s.clone());
            }
            for v in e.values() {
                match v {
                    YamlElement::Subtree(t) => {
                        if let Some(f) = find_final(t) {
                            return Some(f);
                        }
                    }
                    YamlElement::Array(a) => {
                        for x in a.iter().rev() {
                            if let YamlElement::Subtree(t) = x {
                                if let Some(f) = find_final(t) {
                                    return Some(f);
                                }
                            }
                        }
                    }
                    _ => {}
                }
            }
            None
        }
        let fin = tree.iter().rev().find_map(find_final);
        match fin.as_deref() {
            None => st.label("hierarchy-has-no-final-entry(skip)"),
            Some(t) => match read_val(t) {
                Some(fv) if &fv == v => st.label("hierarchy-final-checked"),
                other => {
                    return Err(Viol::new("hierarchy-final-differs", v.show(), format!("{fin:?} -> {:?}", other.map(|x| x.show())), case(json!({"entries": tree.len()}))));
                }
            },
        }
    }
    if reference.is_err() {
        // the hierarchical view reports a failure exactly when the consensus evaluator fails
        fn has_failure(e: &BTreeMap<String, YamlElement>) -> bool {
            if e.contains_key("Failure") || e.contains_key("Throw") {
                return true;
            }
            e.values().any(|v| match v {
                YamlElement::Subtree(t) => has_failure(t),
                YamlElement::Array(a) => a.iter().any(|x| matches!(x, YamlElement::Subtree(t) if has_failure(t))),
                _ => false,
            })
        }
        if tree.iter().any(has_failure) {
            st.label("hierarchy-failure-checked");
        } else {
            return Err(Viol::new("hierarchy-has-no-failure-entry", "a Failure or Throw entry (the consensus evaluator fails)", format!("{} entries, none reports a failure", tree.len()), case(json!({"entries": tree.len()}))));
        }
    }
    for e in &tree {
        if let Some(YamlElement::String(n)) = e.get("Function-Name") {
            let known_name = symbols.values().any(|v| v == n) || n.starts_with("*") || n.is_empty() || n.chars().all(|c| c.is_ascii_hexdigit());
            if !known_name {
                return Err(Viol::new("hierarchy-function-name-not-in-symbols", "a name from the symbol table", n.clone(), case(json!({}))));
            }
        }
    }
    Ok(Some((checked_rows, has_apply)))
}

impl Prop for C12Prop {
    fn id(&self) -> &'static str {
        "C12"
    }
    fn rule(&self) -> &'static str {
        "Programs: compiled C01-generator programs (one modern sigil per case, the source-located compiler output with its symbol table) on generated argument trees, and value-directed raw G2 CLVM programs in their generated environment (incl. injected failures). The trace is produced by stepping CldbRun to the end (step cap => skip). Oracle: (1) the trace ends in Final equal to clvmr's value, or in Failure/Throw exactly when clvmr fails; (2) every row carrying Operator, Arguments and Value re-read with the modern reader satisfies clvmr: (op (q . a1) ..) == Value (rows of operator 2 carry no Arguments); (3) Row numbers are consecutive from 0; (4) the same program supplied as hex (hex_to_modern_sexp) yields the same rows modulo location fields; (5) cldb_hierarchy's last Final agrees and every Function-Name is in the symbol table. Non-trivial: the trace has >= 5 checked rows and (for compiled programs) at least one apply. Distinct by hash of (program, env)."
    }
    fn sections(&self, tier: Tier) -> Vec<Section> {
        vec![
            Section {
                name: "compiled",
                kind: SectionKind::Random {
                    cases: tier.pick(400, 2_000),
                    maxlen: 6000,
                },
                exhaustive: false,
                what: "compiled generated Chialisp programs x argument trees, plain + hex + hierarchical",
            },
            Section {
                name: "raw",
                kind: SectionKind::Random {
                    cases: tier.pick(2_500, 30_000),
                    maxlen: 2400,
                },
                exhaustive: false,
                what: "raw generated CLVM programs in their environment",
            },
        ]
    }
    fn run(&self, sec: &str, input: &Input, tier: Tier, st: &mut Stats) -> Verdict {
        let Input::Bytes(bytes) = input else {
            return Verdict::Skip("index input not used");
        };
        match sec {
            "compiled" => {
                let case = decode_case(bytes, tier, None);
                st.label("compiled_case");
                if case.collision {
                    return Verdict::Skip("integer literal spells a name (generator precondition)");
                }
                let skip = bytes.len().saturating_sub(3);
                let mut c = Choices::new(&bytes[skip..]);
                let d = *c.choose(MODERN);
                let text = render_program(&case.prog, Some(d));
                let compiled = match sut::compile_modern(&text, d.sigil(), ModernOpts::cli_default(d.stepping()), "*verif*.clsp", &[]) {
                    Ok(x) => x,
                    Err(e) => {
                        st.reject(&format!("[{}] {}", d.name(), e.1.chars().take(80).collect::<String>()));
                        return Verdict::Skip("rejected by the compiler");
                    }
                };
                let lines: Vec<String> = text.lines().map(|l| l.to_string()).collect();
                let mut best = (0usize, false);
                let mut any = false;
                for a in case.args.iter().take(2) {
                    match judge(&compiled.code, a, Some(compiled.rich.clone()), &compiled.symbols, lines.clone(), st) {
                        Err(mut v) => {
                            if let Some(o) = v.case.as_object_mut() {
                                o.insert("source".into(), json!(text));
                                o.insert("dialect".into(), json!(d.name()));
                            }
                            return Verdict::Violation(Box::new(v));
                        }
                        Ok(Some((rows, ap))) => {
                            any = true;
                            if rows > best.0 {
                                best = (rows, ap);
                            }
                        }
                        Ok(None) => {}
                    }
                }
                if !any {
                    return Verdict::Skip("limits / environment not readable");
                }
                st.label("checked");
                if best.0 >= 5 && best.1 {
                    let mut k = text.clone().into_bytes();
                    k.extend(case.args[0].ser());
                    st.nontrivial(fnv(&k));
                    st.sample(|| json!({"section": "compiled", "dialect": d.name(), "source": text, "args": case.args[0].show(), "rows_checked": best.0}));
                }
                Verdict::Pass
            }
            _ => {
                let mut c = Choices::new(bytes);
                let g = gen_program(&mut c, 12, 2);
                st.label("raw_case");
                for l in &g.labels {
                    st.label(l);
                }
                match judge(&g.prog, &g.env, None, &HashMap::new(), vec![], st) {
                    Err(v) => Verdict::Violation(Box::new(v)),
                    Ok(None) => Verdict::Skip("limits / environment not readable"),
                    Ok(Some((rows, _))) => {
                        st.label("checked");
                        if rows >= 5 {
                            let mut k = g.prog.ser();
                            k.extend(g.env.ser());
                            st.nontrivial(fnv(&k));
                            st.sample(|| json!({"section": "raw", "program": crate::props::c01::disasm(&g.prog), "env": g.env.show(), "rows_checked": rows}));
                        }
                        Verdict::Pass
                    }
                }
            }
        }
    }
    fn describe(&self, sec: &str, input: &Input, tier: Tier) -> Option<Value> {
        // (what a crashed or timed-out compiled case was: the orchestrator and `vcheck show` use it)
        let Input::Bytes(bytes) = input else {
            return None;
        };
        if sec != "compiled" {
            return None;
        }
        let case = decode_case(bytes, tier, None);
        let skip = bytes.len().saturating_sub(3);
        let mut c = Choices::new(&bytes[skip..]);
        let d = *c.choose(MODERN);
        let text = render_program(&case.prog, Some(d));
        let envs: Vec<Value> = case.args.iter().take(2).map(|a| json!({"env": a.show(), "env_hex": hex(&a.ser())})).collect();
        Some(json!({"source": text, "dialect": d.name(), "env_hex": case.args.first().map(|a| hex(&a.ser())).unwrap_or_default(), "environments": envs}))
    }
    fn replay(&self, case: &Value, st: &mut Stats) -> Option<Verdict> {
        let e = sut::consensus_deserialize(&hex::decode(case.get("env_hex")?.as_str()?).ok()?).ok()?;
        // a compiled case is replayed from its source (symbols and source lines matter to the
        // hierarchical view)
        if let (Some(src), Some(dn)) = (case.get("source").and_then(|s| s.as_str()), case.get("dialect").and_then(|s| s.as_str())) {
            if let Some(d) = Dialect::parse(dn) {
                if let Ok(compiled) = sut::compile_modern(src, d.sigil(), ModernOpts::cli_default(d.stepping()), "*verif*.clsp", &[]) {
                    let lines: Vec<String> = src.lines().map(|l| l.to_string()).collect();
                    return Some(match judge(&compiled.code, &e, Some(compiled.rich.clone()), &compiled.symbols, lines, st) {
                        Err(mut v) => {
                            if let Some(o) = v.case.as_object_mut() {
                                o.insert("source".into(), json!(src));
                                o.insert("dialect".into(), json!(dn));
                            }
                            Verdict::Violation(Box::new(v))
                        }
                        Ok(_) => Verdict::Pass,
                    });
                }
            }
        }
        let p = sut::consensus_deserialize(&hex::decode(case.get("program_hex")?.as_str()?).ok()?).ok()?;
        Some(match judge(&p, &e, None, &HashMap::new(), vec![], st) {
            Err(v) => Verdict::Violation(Box::new(v)),
            Ok(_) => Verdict::Pass,
        })
    }
    fn known(&self, v: &Viol) -> Option<&'static str> {
        // i and a never produce an operator result of their own (they finish by continuing with
        // the chosen branch / the applied program), so a row that carries their Operator field was
        // completed by an unrelated later result and mixes fields of two operators
        // the hierarchical (-t) view loses a failure that happens inside a nested function frame;
        // the plain view of the same run (checked first, clause 1) does report it
        // (only for compiled programs, whose symbol table gives the view function frames; a raw
        // program has none and must show its failure)
        if v.sig == "hierarchy-has-no-failure-entry" && v.case.get("source").is_some() {
            return Some("hierarchical-view-drops-a-failure-inside-a-function-frame");
        }
        if v.sig == "row-not-true-of-consensus" {
            let row = v.case.get("detail")?.get("row")?;
            let op = row.get("Operator")?.as_str()?;
            if op == "2" || op == "3" {
                return Some("rows-of-i-and-a-are-completed-by-unrelated-results");
            }
        }
        None
    }
    fn case_timeout(&self) -> (u64, bool) {
        (60, false)
    }
    fn health_floors(&self, _tier: Tier) -> Vec<(&'static str, &'static str, f64)> {
        vec![("checked", "", 0.5)]
    }
}
