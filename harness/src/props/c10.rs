//! C10 — ill-scoped programs are rejected, never miscompiled, and never loop the compiler.

use crate::choices::{fnv, Choices};
use crate::core::*;
use crate::gen_lisp::*;
use crate::gen_value::*;
use crate::props::c01::decode_case;
use crate::sut::{self, ModernOpts};
use num_bigint::BigInt;
use serde_json::{json, Value};
use std::collections::BTreeSet;

pub struct C10Prop;
pub static C10: C10Prop = C10Prop;

const STRICT: &[Dialect] = &[Dialect::Strict21, Dialect::Cl23, Dialect::Cl231, Dialect::Cl24];

fn refs_in(e: &Expr, out: &mut BTreeSet<String>) {
    match e {
        Expr::Var(n) | Expr::FunRef(n) => {
            out.insert(n.clone());
        }
        Expr::Int(_) | Expr::Str(_) | Expr::Hex(_) | Expr::Nil | Expr::Quote(_) => {}
        Expr::If(a, b, c) => {
            refs_in(a, out);
            refs_in(b, out);
            refs_in(c, out);
        }
        Expr::Prim(_, args) | Expr::List(args) => args.iter().for_each(|a| refs_in(a, out)),
        Expr::MacroCall { name, args } => {
            out.insert(name.clone());
            args.iter().for_each(|a| refs_in(a, out));
        }
        Expr::Call { f, args, rest } => {
            out.insert(f.clone());
            args.iter().for_each(|a| refs_in(a, out));
            if let Some(r) = rest {
                refs_in(r, out);
            }
        }
        Expr::Let { binds, body, .. } => {
            binds.iter().for_each(|b| refs_in(&b.1, out));
            refs_in(body, out);
        }
        Expr::Assign { binds, body, .. } => {
            binds.iter().for_each(|b| refs_in(&b.1, out));
            refs_in(body, out);
        }
        Expr::Lambda { caps, body, .. } => {
            caps.iter().for_each(|c| {
                out.insert(c.clone());
            });
            refs_in(body, out);
        }
        Expr::Apply(a, b) => {
            refs_in(a, out);
            refs_in(b, out);
        }
        Expr::QQList(items) => items.iter().for_each(|i| {
            if let Err(e) = i {
                refs_in(e, out)
            }
        }),
        Expr::ModExpr(_) => {}
    }
}

fn helper_name(h: &Helper) -> &str {
    match h {
        Helper::Defun { name, .. } | Helper::Defconstant { name, .. } | Helper::Defconst { name, .. } | Helper::Defmacro { name, .. } => name,
    }
}

/// helpers reachable from the main expression
pub fn reachable(p: &Program) -> BTreeSet<String> {
    let mut seen: BTreeSet<String> = BTreeSet::new();
    let mut work: Vec<String> = {
        let mut s = BTreeSet::new();
        refs_in(&p.body, &mut s);
        s.into_iter().collect()
    };
    while let Some(n) = work.pop() {
        if !seen.insert(n.clone()) {
            continue;
        }
        if let Some(h) = p.helpers.iter().find(|h| helper_name(h) == n) {
            let mut s = BTreeSet::new();
            match h {
                Helper::Defun { body, .. } => refs_in(body, &mut s),
                Helper::Defconst { expr, .. } => refs_in(expr, &mut s),
                Helper::Defmacro { kind, .. } => match kind {
                    MacroKind::Twice(o) | MacroKind::CallFn(o) => {
                        s.insert(o.clone());
                    }
                    _ => {}
                },
                _ => {}
            }
            work.extend(s);
        }
    }
    seen
}

/// visit variable positions (Var nodes) of an expression in pre-order
fn vars_mut(e: &mut Expr, f: &mut dyn FnMut(&mut Expr, &'static str), site: &'static str) {
    match e {
        Expr::Var(_) => f(e, site),
        Expr::If(a, b, c) => {
            vars_mut(a, f, site);
            vars_mut(b, f, site);
            vars_mut(c, f, site);
        }
        Expr::Prim(_, args) | Expr::List(args) => args.iter_mut().for_each(|a| vars_mut(a, f, site)),
        Expr::MacroCall { args, .. } => args.iter_mut().for_each(|a| vars_mut(a, f, "macro-operand")),
        Expr::Call { args, rest, .. } => {
            args.iter_mut().for_each(|a| vars_mut(a, f, site));
            if let Some(r) = rest {
                vars_mut(r, f, "rest-tail");
            }
        }
        Expr::Let { binds, body, .. } => {
            binds.iter_mut().for_each(|b| vars_mut(&mut b.1, f, "let-binding"));
            vars_mut(body, f, "let-body");
        }
        Expr::Assign { binds, body, .. } => {
            binds.iter_mut().for_each(|b| vars_mut(&mut b.1, f, "assign-binding"));
            vars_mut(body, f, "assign-body");
        }
        Expr::Lambda { body, .. } => vars_mut(body, f, "lambda-body"),
        Expr::Apply(a, b) => {
            vars_mut(a, f, site);
            vars_mut(b, f, site);
        }
        Expr::QQList(items) => items.iter_mut().for_each(|i| {
            if let Err(e) = i {
                vars_mut(e, f, site)
            }
        }),
        _ => {}
    }
}

#[derive(Debug, Clone)]
pub struct Defect {
    pub kind: &'static str,
    pub site: String,
    /// identifiers one of which the error must name (empty: location check only)
    pub must_name: Vec<String>,
}

/// inject exactly one defect; None when the program offers no place for the chosen kind
pub fn inject(c: &mut Choices, p: &Program, kind: usize) -> Option<(Program, Defect)> {
    let mut q = p.clone();
    let reach = reachable(p);
    match kind {
        0 => {
            // U: fresh unbound name at a variable position of reachable code
            let fresh = "UNBOUND_zq".to_string();
            // count positions
            let mut total = 0usize;
            let mut count = |_: &mut Expr, _: &'static str| total += 1;
            for h in q.helpers.iter_mut() {
                let nm = helper_name(h).to_string();
                if !reach.contains(&nm) {
                    continue;
                }
                match h {
                    Helper::Defun { body, inline, .. } => vars_mut(body, &mut count, if *inline { "inline-body" } else { "defun-body" }),
                    Helper::Defconst { expr, .. } => vars_mut(expr, &mut count, "defconst"),
                    _ => {}
                }
            }
            vars_mut(&mut q.body, &mut count, "main-body");
            if total == 0 {
                return None;
            }
            let target = c.pick(total);
            let mut k = 0usize;
            let mut site = String::new();
            {
                let mut repl = |e: &mut Expr, s: &'static str| {
                    if k == target {
                        *e = Expr::Var(fresh.clone());
                        site = s.to_string();
                    }
                    k += 1;
                };
                for h in q.helpers.iter_mut() {
                    let nm = helper_name(h).to_string();
                    if !reach.contains(&nm) {
                        continue;
                    }
                    match h {
                        Helper::Defun { body, inline, .. } => vars_mut(body, &mut repl, if *inline { "inline-body" } else { "defun-body" }),
                        Helper::Defconst { expr, .. } => vars_mut(expr, &mut repl, "defconst"),
                        _ => {}
                    }
                }
                vars_mut(&mut q.body, &mut repl, "main-body");
            }
            Some((
                q,
                Defect {
                    kind: "unbound-name",
                    site,
                    must_name: vec![fresh],
                },
            ))
        }
        1 => {
            // D: second definition of an existing reachable function
            let cands: Vec<(String, bool, Pat)> = p
                .helpers
                .iter()
                .filter_map(|h| match h {
                    Helper::Defun { name, inline, params, .. } if reach.contains(name) => Some((name.clone(), *inline, params.clone())),
                    _ => None,
                })
                .collect();
            if cands.is_empty() {
                return None;
            }
            let (name, was_inline, params) = cands[c.pick(cands.len())].clone();
            let new_inline = c.chance(128);
            let at = c.pick(q.helpers.len() + 1);
            q.helpers.insert(
                at,
                Helper::Defun {
                    name: name.clone(),
                    inline: new_inline,
                    params,
                    body: Expr::Int(BigInt::from(7)),
                    ret: Ty::Int,
                },
            );
            Some((
                q,
                Defect {
                    kind: "duplicate-function",
                    site: format!("{}-then-{}", if was_inline { "inline" } else { "defun" }, if new_inline { "inline" } else { "defun" }),
                    must_name: vec![name],
                },
            ))
        }
        2 => {
            // R: a cycle of length 1..4 among inline functions, reachable from main
            let len = c.range(1, 4);
            let names: Vec<String> = (0..len).map(|i| format!("inlR_{i}")).collect();
            let through = c.pick(6);
            if through == 3 || through == 4 {
                // a helper with a rest parameter / an ordinary function to pass the call through
                q.helpers.push(Helper::Defun {
                    name: "viaR_".into(),
                    inline: through == 3 && c.chance(128),
                    params: Pat::Cons(Box::new(Pat::Name("VA".into(), Ty::Int)), Box::new(Pat::Name("VB".into(), Ty::Any))),
                    body: Expr::Var("VA".into()),
                    ret: Ty::Int,
                });
            }
            for i in 0..len {
                let next = names[(i + 1) % len].clone();
                let call = Expr::Call {
                    f: next,
                    args: vec![Expr::Prim("-", vec![Expr::Var("XR".into()), Expr::Int(BigInt::from(1))])],
                    rest: None,
                };
                let body = match through {
                    0 => Expr::Prim("+", vec![Expr::Int(BigInt::from(1)), call]),
                    1 => Expr::If(Box::new(Expr::Var("XR".into())), Box::new(call), Box::new(Expr::Int(BigInt::from(0)))),
                    2 => Expr::Let {
                        star: false,
                        binds: vec![("LR".into(), call)],
                        body: Box::new(Expr::Var("LR".into())),
                    },
                    // the back edge sits in the &rest tail of another call
                    3 => Expr::Call {
                        f: "viaR_".into(),
                        args: vec![Expr::Var("XR".into())],
                        rest: Some(Box::new(call)),
                    },
                    // ... in an ordinary argument of another function's call
                    4 => Expr::Call {
                        f: "viaR_".into(),
                        args: vec![call, Expr::Int(BigInt::from(0))],
                        rest: None,
                    },
                    // ... in an assign binding
                    _ => Expr::Assign {
                        hint: 0,
                        binds: vec![(Pat::Name("AR".into(), Ty::Int), call)],
                        order: vec![0],
                        body: Box::new(Expr::Var("AR".into())),
                    },
                };
                q.helpers.push(Helper::Defun {
                    name: names[i].clone(),
                    inline: true,
                    params: list_pat(vec![Pat::Name("XR".into(), Ty::Int)], Pat::Nil),
                    body,
                    ret: Ty::Int,
                });
            }
            q.body = Expr::Prim(
                "c",
                vec![
                    Expr::Call {
                        f: names[0].clone(),
                        args: vec![Expr::Int(BigInt::from(3))],
                        rest: None,
                    },
                    q.body.clone(),
                ],
            );
            Some((
                q,
                Defect {
                    kind: "inline-recursion",
                    site: format!("cycle-length-{len}-through-{}", ["operand", "if-branch", "let-binding", "rest-tail", "call-argument", "assign-binding"][through]),
                    must_name: names,
                },
            ))
        }
        _ => {
            // A: assign with a dependency cycle or a repeated name
            let which = c.weighted(&[2, 6, 1, 4]);
            let one = || Expr::Int(BigInt::from(1));
            let v = |n: &str| Expr::Var(n.to_string());
            let n = |s: &str| Pat::Name(s.to_string(), Ty::Int);
            let (binds, must): (Vec<(Pat, Expr)>, Vec<String>) = match which {
                0 => (vec![(n("AA"), Expr::Prim("+", vec![v("BB"), one()])), (n("BB"), Expr::Prim("+", vec![v("AA"), one()]))], vec![]),
                1 => {
                    // 2..5 bindings forming a valid chain in a random source order, then one of
                    // them renamed to an earlier one's name (adjacent or not, plain or inside a
                    // destructuring pattern)
                    let k = c.range(2, 6);
                    let names: Vec<String> = (0..k).map(|i| format!("AA{i}")).collect();
                    let mut bs: Vec<(Pat, Expr)> = (0..k)
                        .map(|i| {
                            let val = if i == 0 || c.chance(100) { one() } else { Expr::Prim("+", vec![v(&names[c.pick(i)]), one()]) };
                            if c.chance(60) {
                                (Pat::Cons(Box::new(n(&names[i])), Box::new(n(&format!("AB{i}")))), Expr::Prim("c", vec![val, one()]))
                            } else {
                                (n(&names[i]), val)
                            }
                        })
                        .collect();
                    for i in (1..bs.len()).rev() {
                        let j = c.pick(i + 1);
                        bs.swap(i, j);
                    }
                    // mostly NOT next to each other: a check that only looks at neighbours misses those
                    let (a, b) = if k >= 3 && c.chance(180) {
                        let a = c.pick(k - 2);
                        (a, a + 2 + c.pick(k - 2 - a))
                    } else {
                        let a = c.pick(k - 1);
                        (a, a + 1 + c.pick(k - 1 - a))
                    };
                    let first_name = |p: &Pat| match p {
                        Pat::Cons(x, _) => match &**x {
                            Pat::Name(s, _) => s.clone(),
                            _ => String::new(),
                        },
                        Pat::Name(s, _) => s.clone(),
                        _ => String::new(),
                    };
                    let dup = first_name(&bs[a].0);
                    // nothing may refer to the name that disappears
                    let gone = first_name(&bs[b].0);
                    fn subst(e: &Expr, from: &str, to: &str) -> Expr {
                        match e {
                            Expr::Var(x) if x == from => Expr::Var(to.to_string()),
                            Expr::Prim(o, args) => Expr::Prim(o, args.iter().map(|a| subst(a, from, to)).collect()),
                            other => other.clone(),
                        }
                    }
                    for x in bs.iter_mut() {
                        x.1 = subst(&x.1, &gone, &dup);
                    }
                    bs[b].0 = match &bs[b].0 {
                        Pat::Cons(_, y) => Pat::Cons(Box::new(n(&dup)), y.clone()),
                        _ => n(&dup),
                    };
                    // the form's body refers to AA: make the duplicated name that one
                    let bs: Vec<(Pat, Expr)> = bs.into_iter().map(|(p, e)| (rename_pat(&p, &dup, "AA"), subst(&e, &dup, "AA"))).collect();
                    (bs, vec!["AA".into()])
                }
                2 => (
                    vec![
                        (Pat::Cons(Box::new(n("AA")), Box::new(n("BB"))), Expr::Prim("c", vec![one(), one()])),
                        (Pat::Cons(Box::new(n("BB")), Box::new(n("CC"))), Expr::Prim("c", vec![one(), one()])),
                    ],
                    vec!["BB".into()],
                ),
                _ => {
                    // a dependency cycle of length 2..5 in a random source order, with extra
                    // well-founded bindings around it
                    let k = c.range(2, 5);
                    let names: Vec<String> = (0..k).map(|i| if i == 0 { "AA".to_string() } else { format!("CY{i}") }).collect();
                    let mut bs: Vec<(Pat, Expr)> = (0..k).map(|i| (n(&names[i]), Expr::Prim("+", vec![v(&names[(i + 1) % k]), one()]))).collect();
                    for x in 0..c.range(0, 2) {
                        bs.push((n(&format!("OK{x}")), one()));
                    }
                    for i in (1..bs.len()).rev() {
                        let j = c.pick(i + 1);
                        bs.swap(i, j);
                    }
                    (bs, vec![])
                }
            };
            let order = (0..binds.len()).collect();
            let bad = Expr::Assign {
                hint: c.pick(3) as u8,
                binds,
                order,
                body: Box::new(v("AA")),
            };
            // place: main body or a reachable function body
            let fns: Vec<usize> = q
                .helpers
                .iter()
                .enumerate()
                .filter(|(_, h)| matches!(h, Helper::Defun { name, .. } if reach.contains(name)))
                .map(|(i, _)| i)
                .collect();
            let site;
            if !fns.is_empty() && c.chance(128) {
                let i = fns[c.pick(fns.len())];
                if let Helper::Defun { body, inline, .. } = &mut q.helpers[i] {
                    *body = Expr::Prim("c", vec![bad, body.clone()]);
                    site = if *inline { "inline-body" } else { "defun-body" };
                } else {
                    site = "main-body";
                }
            } else {
                q.body = Expr::Prim("c", vec![bad, q.body.clone()]);
                site = "main-body";
            }
            Some((
                q,
                Defect {
                    kind: if must.is_empty() { "assign-cycle" } else { "assign-duplicate" },
                    site: site.to_string(),
                    must_name: must,
                },
            ))
        }
    }
}

fn rename_pat(p: &Pat, from: &str, to: &str) -> Pat {
    match p {
        Pat::Name(s, t) if s == from => Pat::Name(to.to_string(), t.clone()),
        Pat::Cons(a, b) => Pat::Cons(Box::new(rename_pat(a, from, to)), Box::new(rename_pat(b, from, to))),
        Pat::At(s, inner) => Pat::At(if s == from { to.to_string() } else { s.clone() }, Box::new(rename_pat(inner, from, to))),
        other => other.clone(),
    }
}

fn compile(p: &Program, d: Dialect) -> Result<V, (String, String)> {
    let text = render_program(p, Some(d));
    sut::compile_modern(&text, d.sigil(), ModernOpts::cli_default(d.stepping()), "*verif*.clsp", &[])
        .map(|c| c.code)
        .map_err(|e| (e.0.to_string(), e.1))
}

pub fn decode_bad(bytes: &[u8], tier: Tier) -> Option<Program> {
    let case = decode_case(bytes, tier, None);
    let skip = bytes.len().saturating_sub(48);
    let mut c = Choices::new(&bytes[skip..]);
    let kind = c.weighted(&[5, 3, 3, 3]);
    inject(&mut c, &case.prog, kind).map(|x| x.0)
}

pub fn judge(good: &Program, bad: &Program, defect: &Defect, d: Dialect) -> Result<bool, Viol> {
    // precondition: the repaired twin compiles (phase 1: running out of time here is not about
    // ill-scoped programs; C14 and C01 own hangs on well-scoped input)
    crate::worker::set_phase(1);
    let t0 = std::time::Instant::now();
    let good_ok = compile(good, d).is_ok();
    let slow_twin = t0.elapsed().as_secs() >= 8;
    crate::worker::set_phase(2);
    // a twin that takes this long leaves the injected program (about as expensive) too little of
    // the case's time budget for a timeout to mean anything: not judged
    if !good_ok || slow_twin {
        return Ok(false);
    }
    let bad_text = render_program(bad, Some(d));
    let case = || json!({"source": bad_text, "dialect": d.name(), "defect": defect.kind, "site": defect.site, "must_name_one_of": defect.must_name});
    match compile(bad, d) {
        Ok(code) => {
            if defect.kind == "unbound-name" {
                // Code was emitted *for the unbound identifier* only if its text reached the
                // output (as a quoted constant).  Otherwise the use site was dead code the compiler
                // never generated anything for (an unused let binding, an unused inline argument):
                // not covered by the statement.
                let mut atoms = vec![];
                code.atoms(&mut atoms);
                let name = defect.must_name[0].as_bytes();
                if !atoms.iter().any(|a| a.windows(name.len()).any(|w| w == name)) {
                    return Ok(false);
                }
            }
            Err(Viol::new(
                &format!("accepted:{}:{}", defect.kind, if d.strict() { "strict" } else { "nonstrict" }),
                "compile error naming the offending identifier",
                format!("compiled to {}", crate::props::c01::disasm(&code).chars().take(300).collect::<String>()),
                case(),
            ))
        }
        Err((loc, msg)) => {
            if !defect.must_name.is_empty() && !defect.must_name.iter().any(|n| msg.contains(n.as_str())) {
                // "names the offending identifier or form": the lines the error location spans may
                // name it (the renderer puts each helper form on one line)
                let lines = loc_lines(&loc, &bad_text);
                if !defect.must_name.iter().any(|n| lines.contains(n.as_str())) {
                    return Err(Viol::new(
                        &format!("error-does-not-name-identifier:{}", defect.kind),
                        format!("an error whose message or located form names one of {:?}", defect.must_name),
                        format!("{loc}: {msg}"),
                        case(),
                    ));
                }
            }
            Ok(true)
        }
    }
}

/// text of the source lines spanned by a location printed as file(L):C[-file(L2):C2]
pub fn loc_lines(loc: &str, text: &str) -> String {
    let mut nums: Vec<usize> = vec![];
    let mut rest = loc;
    while let Some(i) = rest.find('(') {
        let after = &rest[i + 1..];
        if let Some(j) = after.find(')') {
            if let Ok(n) = after[..j].parse::<usize>() {
                nums.push(n);
            }
            rest = &after[j..];
        } else {
            break;
        }
    }
    if nums.is_empty() {
        return String::new();
    }
    let lo = *nums.iter().min().unwrap();
    let hi = *nums.iter().max().unwrap();
    text.lines().enumerate().filter(|(i, _)| i + 1 >= lo && i + 1 <= hi).map(|(_, l)| l).collect::<Vec<_>>().join("\n")
}

impl Prop for C10Prop {
    fn id(&self) -> &'static str {
        "C10"
    }
    fn rule(&self) -> &'static str {
        "A generated well-scoped program (C01 generator; its compile success under the chosen sigil is a checked precondition) plus exactly one injected defect: (U) a fresh unbound name substituted at a proptest-chosen variable position of reachable code (main body, defun/inline body, let/assign binding or body, lambda body, macro operand, &rest tail, defconst) under the four strict sigils; (D) a second defun/defun-inline with the name of a reachable function, all four inline/non-inline pairings, inserted at any position; (R) a cycle of length 1..4 among inline functions reachable from main, the back edge sitting in an operand, an if branch or a let binding; (A) an assign with a dependency cycle (2 or 3 bindings) or a repeated name (also inside destructuring patterns), in the main body or a reachable function body, all six sigils. Oracle: compile_file returns an error (a returned program or a run past the wall-clock limit is the violation) whose message names the offending identifier (U, D, R, duplicate A). Non-trivial: the defect site is not the main body. Distinct by hash of the defective source."
    }
    fn sections(&self, tier: Tier) -> Vec<Section> {
        vec![Section {
            name: "random",
            kind: SectionKind::Random {
                cases: tier.pick(2_000, 12_000),
                maxlen: 6000,
            },
            exhaustive: false,
            what: "well-scoped generated program + one injected defect x sigils",
        }]
    }
    fn run(&self, sec: &str, input: &Input, tier: Tier, st: &mut Stats) -> Verdict {
        let Input::Bytes(bytes) = input else {
            return Verdict::Skip("index input not used");
        };
        let _ = sec;
        let case = decode_case(bytes, tier, None);
        if case.collision {
            return Verdict::Skip("integer literal spells a name (generator precondition)");
        }
        let skip = bytes.len().saturating_sub(48);
        let mut c = Choices::new(&bytes[skip..]);
        let kind = c.weighted(&[5, 3, 3, 3]);
        let Some((bad, defect)) = inject(&mut c, &case.prog, kind) else {
            return Verdict::Skip("program offers no place for the chosen defect");
        };
        st.label(&format!("defect:{}", defect.kind));
        st.label(&format!("site:{}:{}", defect.kind, defect.site));
        let dialects: Vec<Dialect> = if defect.kind == "unbound-name" {
            STRICT.to_vec()
        } else {
            MODERN.to_vec()
        };
        // two dialects per case, chosen by the bytes
        let d1 = dialects[c.pick(dialects.len())];
        let d2 = dialects[c.pick(dialects.len())];
        let mut checked = false;
        for d in [d1, d2] {
            match judge(&case.prog, &bad, &defect, d) {
                Err(v) => return Verdict::Violation(Box::new(v)),
                Ok(true) => {
                    checked = true;
                    st.label(&format!("rejected-as-required:{}", d.name()));
                }
                Ok(false) => st.label("twin-does-not-compile-or-dead-site(skip)"),
            }
        }
        if !checked {
            return Verdict::Skip("repaired twin does not compile under the chosen sigils");
        }
        st.label("checked");
        if defect.site != "main-body" {
            let text = render_program(&bad, None);
            st.nontrivial(fnv(text.as_bytes()));
            st.sample(|| json!({"defect": defect.kind, "site": defect.site, "dialects": [d1.name(), d2.name()], "source": text}));
        }
        Verdict::Pass
    }
    fn replay(&self, case: &Value, _st: &mut Stats) -> Option<Verdict> {
        let src = case.get("source")?.as_str()?;
        let d = Dialect::parse(case.get("dialect")?.as_str()?)?;
        let must: Vec<String> = case.get("must_name_one_of")?.as_array()?.iter().filter_map(|x| x.as_str().map(|s| s.to_string())).collect();
        let r = sut::compile_modern(src, d.sigil(), ModernOpts::cli_default(d.stepping()), "*verif*.clsp", &[]);
        Some(match r {
            Ok(_) => Verdict::Violation(Box::new(Viol::new(
                &format!("accepted:{}:{}", case.get("defect").and_then(|x| x.as_str()).unwrap_or("?"), if d.strict() { "strict" } else { "nonstrict" }),
                "compile error",
                "compiled",
                case.clone(),
            ))),
            Err((_, msg)) => {
                if !must.is_empty() && !must.iter().any(|n| msg.contains(n.as_str())) {
                    Verdict::Violation(Box::new(Viol::new(
                        &format!("error-does-not-name-identifier:{}", case.get("defect").and_then(|x| x.as_str()).unwrap_or("?")),
                        format!("names one of {must:?}"),
                        msg,
                        case.clone(),
                    )))
                } else {
                    Verdict::Pass
                }
            }
        })
    }
    fn describe(&self, _sec: &str, input: &Input, tier: Tier) -> Option<Value> {
        let Input::Bytes(bytes) = input else { return None };
        let case = decode_case(bytes, tier, None);
        let skip = bytes.len().saturating_sub(48);
        let mut c = Choices::new(&bytes[skip..]);
        let kind = c.weighted(&[5, 3, 3, 3]);
        let (bad, defect) = inject(&mut c, &case.prog, kind)?;
        Some(json!({"source": render_program(&bad, Some(Dialect::Cl23)), "defect": defect.kind, "site": defect.site}))
    }
    fn known(&self, v: &Viol) -> Option<&'static str> {
        // cl22: the frontend optimiser (the partial evaluator) runs over the program before the
        // duplicate-definition check and may give up on it with its own "Don't yet support this
        // call type": the program is rejected, but the message is not about the duplicate.
        let dialect = v.case.get("dialect").and_then(|d| d.as_str()).unwrap_or("");
        let defect = v.case.get("defect").and_then(|d| d.as_str()).unwrap_or("");
        if dialect == "cl22" && defect == "duplicate-function" && v.sig.starts_with("error-does-not-name-identifier") && v.observed.contains("Don't yet support this call type") {
            return Some("cl22-frontend-optimiser-gives-up-before-the-duplicate-check");
        }
        None
    }
    fn timeout_exempt_phase(&self) -> Option<u32> {
        Some(1)
    }
    fn exempt_phase_timeout(&self) -> Option<u64> {
        Some(10)
    }
    fn case_timeout(&self) -> (u64, bool) {
        (40, true)
    }
    fn health_floors(&self, _tier: Tier) -> Vec<(&'static str, &'static str, f64)> {
        vec![("checked", "", 0.5)]
    }
}
