//! C02 — optimisation switches and optimising dialects never change results.

use crate::choices::{fnv, Choices};
use crate::core::*;
use crate::gen_lisp::*;
use crate::gen_value::*;
use crate::props::c01::{decode_case, disasm, known_for_build, nontrivial_feats, replay_source_case, RUN_COST};
use crate::refint::{reference, Outcome};
use crate::sut::{self, ModernOpts};
use serde_json::{json, Value};

pub struct C02Prop;
pub static C02: C02Prop = C02Prop;

pub fn all_opts() -> Vec<ModernOpts> {
    let mut v = vec![];
    for o in [false, true] {
        for f in [false, true] {
            for p in [false, true] {
                v.push(ModernOpts {
                    optimize: o,
                    frontend_opt: f,
                    post_opt: p,
                });
            }
        }
    }
    v
}

fn has_zero_leading_literal(p: &Program) -> bool {
    // hex literals / quoted atoms with a redundant leading byte or all-zero bytes
    fn atom_bad(b: &[u8]) -> bool {
        !b.is_empty() && (b.iter().all(|x| *x == 0) || (b.len() >= 2 && ((b[0] == 0 && b[1] & 0x80 == 0) || (b[0] == 0xff && b[1] & 0x80 != 0))))
    }
    fn data(v: &V) -> bool {
        let mut atoms = vec![];
        v.atoms(&mut atoms);
        atoms.iter().any(|a| atom_bad(a))
    }
    fn ex(e: &Expr) -> bool {
        match e {
            Expr::Hex(b) | Expr::Str(b) => atom_bad(b),
            Expr::Quote(v) => data(v),
            Expr::Int(_) | Expr::Nil | Expr::Var(_) | Expr::FunRef(_) => false,
            Expr::If(a, b, c) => ex(a) || ex(b) || ex(c),
            Expr::Prim(_, args) | Expr::List(args) | Expr::MacroCall { args, .. } => args.iter().any(ex),
            Expr::Call { args, rest, .. } => args.iter().any(ex) || rest.as_ref().map(|r| ex(r)).unwrap_or(false),
            Expr::Let { binds, body, .. } => binds.iter().any(|b| ex(&b.1)) || ex(body),
            Expr::Assign { binds, body, .. } => binds.iter().any(|b| ex(&b.1)) || ex(body),
            Expr::Lambda { body, .. } => ex(body),
            Expr::Apply(a, b) => ex(a) || ex(b),
            Expr::QQList(items) => items.iter().any(|i| match i {
                Ok(v) => data(v),
                Err(e) => ex(e),
            }),
            Expr::ModExpr(p) => pr(p),
        }
    }
    fn pr(p: &Program) -> bool {
        p.helpers.iter().any(|h| match h {
            Helper::Defun { body, .. } => ex(body),
            Helper::Defconst { expr, .. } => ex(expr),
            Helper::Defconstant { value, .. } => data(value),
            _ => false,
        }) || ex(&p.body)
    }
    pr(p)
}

/// shipped programs that declare a modern sigil (small enough to compile 8 times in a quick tier)
pub fn shipped_programs() -> Vec<(String, String)> {
    crate::gen_text::shipped_corpus()
        .iter()
        .filter(|(p, t)| p.ends_with(".clsp") && t.len() < 6_000 && MODERN.iter().any(|d| t.contains(d.sigil())))
        .cloned()
        .collect()
}

/// clauses (1) and (3) on a shipped program; returns the number of builds that compiled
fn judge_shipped(path: &str, text: &str, st: &mut Stats) -> Result<usize, Viol> {
    let Some(d) = MODERN.iter().copied().find(|d| text.contains(d.sigil())) else {
        return Ok(0);
    };
    let dir = std::path::Path::new(path).parent().map(|p| p.to_string_lossy().to_string()).unwrap_or_default();
    let search = vec![dir, "/repo/resources/tests".to_string(), "/repo/resources/tests/bridge-includes".to_string()];
    let compile = |mo: ModernOpts| sut::compile_modern(text, d.sigil(), mo, path, &search).map(|c| c.code).map_err(|e| e.1);
    // generic argument trees: most shipped programs raise on them, some return
    let argsets: Vec<V> = vec![
        nil(),
        list(vec![int(1)]),
        list(vec![int(1), int(2), int(3)]),
        list(vec![list(vec![int(1), int(2)]), int(3), list(vec![int(4), int(5), int(6)])]),
        list(vec![int(10), int(20), int(30), int(40), int(50), int(60)]),
        list(vec![V::A(vec![0x11; 32]), int(7), list(vec![int(1), int(2), int(3)]), int(0)]),
    ];
    let mut compiled = 0;
    let mut first_values: Option<Vec<Option<V>>> = None;
    // clause (3) is per frontend_opt setting (the frontend optimiser has its own, documented,
    // "don't yet support" rejections): each group has its own all-off base
    for fe in [false, true] {
        let base_opts = ModernOpts { optimize: false, frontend_opt: fe, post_opt: false };
        crate::worker::heartbeat();
        let Ok(base) = compile(base_opts) else {
            continue;
        };
        compiled += 1;
        st.label(&format!("shipped:{}", d.name()));
        let base_runs: Vec<Option<V>> = argsets.iter().map(|a| sut::run_consensus(&base, a, RUN_COST).ok()).collect();
        if base_runs.iter().any(|r| r.is_some()) {
            st.label("shipped:returns-on-a-generic-argument");
        }
        // clause (1) across the two groups
        if let Some(fv) = &first_values {
            for ((a, x), y) in argsets.iter().zip(fv.iter()).zip(base_runs.iter()) {
                if let (Some(x), Some(y)) = (x, y) {
                    if x != y {
                        return Err(Viol::new("shipped:builds-return-different-values:fe", x.show(), y.show(), json!({"file": path, "source": text, "dialect": d.name(), "options": base_opts.name(), "detail": {"args": a.show()}})));
                    }
                }
            }
        } else {
            first_values = Some(base_runs.clone());
        }
        for mo in all_opts() {
            if mo.frontend_opt != fe || mo.name() == base_opts.name() {
                continue;
            }
            crate::worker::heartbeat();
            let case = |extra: Value| json!({"file": path, "source": text, "dialect": d.name(), "options": mo.name(), "detail": extra});
            match compile(mo) {
                Err(e) => {
                    // the classic post-optimiser folds constant sub-expressions and rejects the
                    // program when one of them fails for every input -- by design, and outside the
                    // property's quantifier; shipped negative tests (coinid-fail, ...) are of that kind
                    if mo.post_opt {
                        st.label("shipped:post-optimiser-rejected(constant failure; outside the quantifier)");
                        continue;
                    }
                    return Err(Viol::new(&format!("shipped:optimised-build-rejects:{}", mo.name()), "compiles (the build of the same frontend_opt setting with the other switches off does)", e, case(json!({}))));
                }
                Ok(code) => {
                    compiled += 1;
                    for (a, b) in argsets.iter().zip(base_runs.iter()) {
                        let r = sut::run_consensus(&code, a, RUN_COST);
                        match (b, r) {
                            (Some(bv), Ok(v)) if &v != bv => {
                                return Err(Viol::new(&format!("shipped:builds-return-different-values:{}", mo.name()), bv.show(), v.show(), case(json!({"args": a.show(), "args_hex": hex(&a.ser())}))));
                            }
                            (Some(bv), Err(m)) if !sut::is_cost_exceeded(&m) => {
                                return Err(Viol::new(&format!("shipped:optimised-build-fails:{}", mo.name()), bv.show(), m, case(json!({"args": a.show(), "args_hex": hex(&a.ser())}))));
                            }
                            _ => {}
                        }
                    }
                }
            }
        }
    }
    Ok(compiled)
}

struct Build {
    d: Dialect,
    mo: ModernOpts,
    text: String,
    code: Result<V, String>,
}

/// a compile-time rejection that is the failure of an evaluation (a CLVM operator outside its
/// domain, a raise), as opposed to a diagnostic of the compiler
fn is_evaluation_failure(msg: &str) -> bool {
    ["InvalidOperatorArg", "non-cons", "path into atom", "clvm raise", " on list", "with 0", "requires int", "requires 2 arg", "InvalidAllocArg", "shift too large", "invalid indices for substr", "atom is not a"]
        .iter()
        .any(|p| msg.contains(p))
}

fn group(d: Dialect) -> u8 {
    if d.int_fix() {
        1
    } else {
        0
    }
}

/// judge all builds of one program; returns (number of builds compiled, distinct codes, value cases)
fn judge_program(prog: &Program, dialects: &[Dialect], args: &[V], st: &mut Stats) -> Result<(usize, usize, usize), Viol> {
    let refs: Vec<Outcome> = args.iter().map(|a| reference(prog, a)).collect();
    let cross_groups = !has_zero_leading_literal(prog);
    let mut builds: Vec<Build> = vec![];
    for d in dialects {
        let text = render_program(prog, Some(*d));
        for mo in all_opts() {
            crate::worker::heartbeat();
            let code = sut::compile_modern(&text, d.sigil(), mo, "*verif*.clsp", &[]).map(|c| c.code).map_err(|e| e.1);
            if let Err(m) = &code {
                st.reject(&format!("[{} {}] {}", d.name(), mo.name(), m.chars().take(70).collect::<String>()));
            }
            builds.push(Build {
                d: *d,
                mo,
                text: text.clone(),
                code,
            });
        }
    }
    let compiled = builds.iter().filter(|b| b.code.is_ok()).count();
    let mut codes: Vec<Vec<u8>> = builds.iter().filter_map(|b| b.code.as_ref().ok().map(|c| c.ser())).collect();
    codes.sort();
    codes.dedup();
    let mut value_cases = 0;
    for (ai, a) in args.iter().enumerate() {
        let results: Vec<Option<Result<V, String>>> = builds.iter().map(|b| b.code.as_ref().ok().map(|c| sut::run_consensus(c, a, RUN_COST))).collect();
        let mk_case = |b: &Build, want: &V, note: &str| {
            json!({"source": b.text, "dialect": b.d.name(), "options": b.mo.name(), "args": a.show(), "args_hex": hex(&a.ser()),
                   "expected_hex": hex(&want.ser()), "compiled": b.code.as_ref().map(disasm).unwrap_or_default(),
                   "compiled_hex": b.code.as_ref().map(|c| hex(&c.ser())).unwrap_or_default(), "note": note})
        };
        // clause (2): the reference value
        if let Outcome::Value(want) = &refs[ai] {
            for (b, r) in builds.iter().zip(results.iter()) {
                match r {
                    Some(Ok(v)) => {
                        value_cases += 1;
                        if v != want {
                            return Err(Viol::new(&format!("wrong-value:{}:{}", b.d.name(), b.mo.name()), want.show(), v.show(), mk_case(b, want, "differs from the call-by-value meaning of the source")));
                        }
                    }
                    Some(Err(m)) => {
                        if sut::is_cost_exceeded(m) {
                            continue;
                        }
                        return Err(Viol::new(&format!("compiled-fails:{}:{}", b.d.name(), b.mo.name()), want.show(), format!("error: {m}"), mk_case(b, want, "source-level evaluation returns a value")));
                    }
                    None => {}
                }
            }
        }
        // clause (1): all value-returning builds agree (within a value group; across when allowed)
        for g in 0..2u8 {
            let mut first: Option<(&Build, &V)> = None;
            for (b, r) in builds.iter().zip(results.iter()) {
                if !cross_groups && group(b.d) != g {
                    continue;
                }
                if cross_groups && g == 1 {
                    continue;
                }
                if let Some(Ok(v)) = r {
                    match first {
                        None => first = Some((b, v)),
                        Some((b0, v0)) => {
                            if v != v0 {
                                let mut c = mk_case(b, v0, "two builds that both return a value return different values");
                                c["other_build"] = json!({"dialect": b0.d.name(), "options": b0.mo.name(), "compiled": b0.code.as_ref().map(disasm).unwrap_or_default()});
                                return Err(Viol::new(&format!("builds-disagree:{}:{}", b.d.name(), b.mo.name()), format!("{} ({} {})", v0.show(), b0.d.name(), b0.mo.name()), v.show(), c));
                            }
                        }
                    }
                }
            }
        }
        // clause (3): switching optimisation on never loses a compiling, value-returning program
        for d in dialects {
            for fe in [false, true] {
                let base = builds.iter().position(|b| b.d == *d && b.mo.frontend_opt == fe && !b.mo.optimize && !b.mo.post_opt).unwrap();
                if let Some(Ok(v0)) = &results[base] {
                    for (bi, b) in builds.iter().enumerate() {
                        if b.d == *d && b.mo.frontend_opt == fe && bi != base {
                            match &results[bi] {
                                None => {
                                    // the folding optimisers evaluate constant sub-expressions at compile
                                    // time and reject the program when one fails for every input -- by
                                    // design and outside the quantifier ("such sub-expressions are not
                                    // generated"); the generator still reaches one now and then through a
                                    // call with constant operands.  Recognised by the rejection being an
                                    // evaluation failure rather than a compiler diagnostic.
                                    let msg = b.code.as_ref().err().cloned().unwrap_or_default();
                                    if is_evaluation_failure(&msg) {
                                        st.label("optimised-build-rejects-a-constant-failure(outside the quantifier)");
                                        continue;
                                    }
                                    let mut c = mk_case(b, v0, "the unoptimised build of this dialect compiles and returns a value");
                                    c["compile_error"] = json!(b.code.as_ref().err().cloned().unwrap_or_default());
                                    return Err(Viol::new(&format!("optimised-build-rejects:{}:{}", b.d.name(), b.mo.name()), format!("compiles; value {}", v0.show()), format!("compile error: {}", b.code.as_ref().err().cloned().unwrap_or_default()), c));
                                }
                                Some(Err(m)) => {
                                    if sut::is_cost_exceeded(m) {
                                        continue;
                                    }
                                    // "Builds may differ in how lazily they evaluate unused erroneous
                                    // subexpressions": when call-by-value evaluation of the source itself
                                    // fails on these arguments, a build that fails where a lazier one
                                    // returns is within the statement
                                    if matches!(refs[ai], Outcome::Fails(_)) {
                                        st.label("optimised-build-fails-where-call-by-value-evaluation-fails(laziness; allowed)");
                                        continue;
                                    }
                                    return Err(Viol::new(&format!("optimised-build-fails:{}:{}", b.d.name(), b.mo.name()), format!("value {}", v0.show()), format!("error: {m}"), mk_case(b, v0, "the unoptimised build of this dialect returns a value")));
                                }
                                Some(Ok(_)) => {}
                            }
                        }
                    }
                }
            }
        }
    }
    Ok((compiled, codes.len(), value_cases))
}

fn pick_dialects(c: &mut Choices) -> Vec<Dialect> {
    // two dialects of the legacy-int group and one of the fixed group, varying
    let a = *c.choose(&[Dialect::Cl21, Dialect::Strict21, Dialect::Cl22]);
    let b = Dialect::Cl23;
    let f = *c.choose(&[Dialect::Cl231, Dialect::Cl24]);
    vec![a, b, f]
}

impl Prop for C02Prop {
    fn id(&self) -> &'static str {
        "C02"
    }
    fn rule(&self) -> &'static str {
        "The C01 generator's programs, each built under 3 sigils (one of cl21/strict-cl21/cl22, cl23, one of cl23.1/cl24) x all 8 option sets {optimize, frontend_opt, classic post-optimiser} = 24 builds, run on 3 generated argument trees. Oracle: (1) all builds that compile and return a value return the same value (across the two integer-mode groups only when the program has no zero-leading-byte literal); (2) that value equals the reference interpreter's when defined, and a build may not fail where the reference returns; (3) per sigil and frontend_opt setting, if the build with optimize and post-optimiser off compiles and returns a value then every build that only switches optimisation on compiles and returns. Second section (shipped): every .clsp under resources/tests (< 6 KB) that declares a modern sigil and compiles with every switch off, with its own directory, resources/tests and bridge-includes on the search path: all 8 option sets must compile (clause 3) and, on six generic argument trees, every build must return what the all-off build returns wherever that one returns (clauses 1 and 3); most shipped programs raise on generic arguments, which is counted. Non-trivial: at least two builds produced different code and at least one returned a value; or a shipped program compiled under all option sets. Distinct by hash of source + arguments."
    }
    fn sections(&self, tier: Tier) -> Vec<Section> {
        vec![Section {
            name: "random",
            kind: SectionKind::Random {
                cases: tier.pick(600, 300),
                maxlen: 6000,
            },
            exhaustive: false,
            what: "generated programs x 3 sigils x 8 option sets x 3 argument trees",
        }, Section {
            name: "shipped",
            kind: SectionKind::Enum {
                count: shipped_programs().len() as u64,
            },
            exhaustive: true,
            what: "every program under resources/tests that declares a modern sigil and compiles with all switches off (with its own directory and resources/tests on the search path): the 8 option sets x generic argument trees; builds that return must agree, and switching optimisation on must not lose the compile or the return",
        }]
    }
    fn run(&self, sec: &str, input: &Input, tier: Tier, st: &mut Stats) -> Verdict {
        if let ("shipped", Input::Index(i)) = (sec, input) {
            let progs = shipped_programs();
            let (path, text) = &progs[*i as usize % progs.len()];
            return match judge_shipped(path, text, st) {
                Err(v) => Verdict::Violation(Box::new(v)),
                Ok(0) => Verdict::Skip("does not compile with all switches off under its own sigil (needs other include paths, or is a negative test)"),
                Ok(n) => {
                    st.label("shipped-checked");
                    st.nontrivial(fnv(path.as_bytes()));
                    st.sample(|| json!({"section": "shipped", "file": path, "builds_compiled": n}));
                    Verdict::Pass
                }
            };
        }
        match (sec, input) {
            ("random", Input::Bytes(bytes)) => {
                let case = decode_case(bytes, tier, None);
                st.label("random_case");
                if case.collision {
                    return Verdict::Skip("integer literal spells a name (generator precondition)");
                }
                let mut c = Choices::new(bytes);
                // dialect choice from the tail of the choice bytes (independent of the program)
                let skip = bytes.len().saturating_sub(4);
                let mut c2 = Choices::new(&bytes[skip..]);
                let _ = &mut c;
                let dialects = pick_dialects(&mut c2);
                for f in &case.feats {
                    st.label(f);
                }
                for d in &dialects {
                    st.label(&format!("dialect:{}", d.name()));
                }
                match judge_program(&case.prog, &dialects, &case.args, st) {
                    Err(v) => Verdict::Violation(Box::new(v)),
                    Ok((compiled, distinct_codes, value_cases)) => {
                        st.labeln("builds_compiled", compiled as u64);
                        if compiled > 0 {
                            st.label("compiled");
                        }
                        if distinct_codes >= 2 {
                            st.label("builds_differ_in_code");
                        }
                        if distinct_codes >= 2 && value_cases > 0 {
                            st.label("checked");
                            let _ = nontrivial_feats(&case.feats);
                            let text = render_program(&case.prog, None);
                            let mut k = text.clone().into_bytes();
                            for a in &case.args {
                                k.extend(a.ser());
                            }
                            st.nontrivial(fnv(&k));
                            st.sample(|| json!({"section": "random", "source": text, "dialects": dialects.iter().map(|d| d.name()).collect::<Vec<_>>(), "distinct_codes": distinct_codes, "builds_compiled": compiled, "args": case.args.iter().map(|a| a.show()).collect::<Vec<_>>()}));
                            Verdict::Pass
                        } else if compiled == 0 {
                            Verdict::Skip("no build compiled")
                        } else {
                            Verdict::Skip("no build returned a value / all builds identical")
                        }
                    }
                }
            }
            _ => Verdict::Skip("unknown section"),
        }
    }
    fn reduce(&self, _sec: &str, input: &Input, tier: Tier, v: &Viol) -> Option<Viol> {
        let Input::Bytes(b) = input else { return None };
        let case = decode_case(b, tier, None);
        let skip = b.len().saturating_sub(4);
        let mut c2 = Choices::new(&b[skip..]);
        let dialects = pick_dialects(&mut c2);
        let mut last: Option<Viol> = None;
        let sig = v.sig.clone();
        let args = case.args.clone();
        let mut still = |p: &Program| -> bool {
            let mut st = Stats { scratch: true, ..Default::default() };
            match judge_program(p, &dialects, &args, &mut st) {
                Err(v2) if v2.sig == sig => {
                    last = Some(v2);
                    true
                }
                _ => false,
            }
        };
        let _ = crate::reduce::reduce_program(&case.prog, &mut still, 250);
        last
    }
    fn replay(&self, case: &Value, _st: &mut Stats) -> Option<Verdict> {
        replay_source_case(case)
    }
    fn known(&self, v: &Viol) -> Option<&'static str> {
        known_for_build(v)
    }
    fn sut_crash_is_violation(&self) -> bool {
        false
    }
    fn case_timeout(&self) -> (u64, bool) {
        (90, false)
    }
    fn health_floors(&self, _tier: Tier) -> Vec<(&'static str, &'static str, f64)> {
        vec![("checked", "random_case", 0.5)]
    }
}
