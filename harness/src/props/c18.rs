//! C18 — the dependency listing names every file a compilation reads.

use crate::choices::{fnv, Choices};
use crate::core::*;
use crate::gen_lisp::{Dialect, MODERN};
use crate::sut::{self, ModernOpts};
use chialisp::classic::clvm_tools::stages::stage_0::{DefaultProgramRunner, TRunProgram};
use chialisp::compiler::comptypes::{CompileErr, CompilerOpts, HasCompilerOptsDelegation};
use chialisp::compiler::preprocessor::gather_dependencies;
use serde_json::{json, Value};
use std::cell::RefCell;
use std::collections::{BTreeMap, BTreeSet};
use std::path::PathBuf;
use std::rc::Rc;

pub struct C18Prop;
pub static C18: C18Prop = C18Prop;

// ---------------------------------------------------------------------------------------------
// recording CompilerOpts wrapper

#[derive(Clone)]
struct Recorder {
    inner: Rc<dyn CompilerOpts>,
    log: Rc<RefCell<Vec<(String, String)>>>,
}

impl HasCompilerOptsDelegation for Recorder {
    fn compiler_opts(&self) -> Rc<dyn CompilerOpts> {
        self.inner.clone()
    }
    fn update_compiler_opts<F: FnOnce(Rc<dyn CompilerOpts>) -> Rc<dyn CompilerOpts>>(&self, f: F) -> Rc<dyn CompilerOpts> {
        Rc::new(Recorder {
            inner: f(self.inner.clone()),
            log: self.log.clone(),
        })
    }
    fn override_read_new_file(&self, inc_from: String, filename: String) -> Result<(String, Vec<u8>), CompileErr> {
        let r = self.inner.read_new_file(inc_from, filename.clone());
        if let Ok((full, _)) = &r {
            self.log.borrow_mut().push((filename, full.clone()));
        }
        r
    }
    fn override_compile_program(
        &self,
        allocator: &mut clvmr::Allocator,
        runner: Rc<dyn TRunProgram>,
        sexp: Rc<chialisp::compiler::sexp::SExp>,
        symbol_table: &mut std::collections::HashMap<String, String>,
    ) -> Result<chialisp::compiler::sexp::SExp, CompileErr> {
        // nested compiles must keep reading through the recorder
        let me: Rc<dyn CompilerOpts> = Rc::new(self.clone());
        let _g = chialisp::compiler::clvm::NewStyleIntConversion::new(self.inner.dialect().int_fix);
        let optimizer = chialisp::compiler::optimize::get_optimizer(&sexp.loc(), me.clone())?;
        let mut wrapper = chialisp::compiler::CompileContextWrapper::new(allocator, runner, symbol_table, optimizer);
        chialisp::compiler::compiler::compile_pre_forms(&mut wrapper.context, me, &[sexp])
    }
}

// ---------------------------------------------------------------------------------------------
// G5: include graphs on disk

pub struct FsCase {
    pub root: tempfile::TempDir,
    pub search: Vec<String>,
    pub main_path: String,
    pub main_text: String,
    /// include name -> files with that name, per search dir index
    pub placed: BTreeMap<String, Vec<usize>>,
    /// names reachable from main through the model (plain includes followed recursively, embeds)
    pub expected_names: BTreeSet<String>,
    pub depth: usize,
    pub has_dup: bool,
    pub has_embed: bool,
}

fn lib_text(c: &mut Choices, tag: usize, dirn: usize, nested: &[String]) -> String {
    // a list of helper forms; the constant's value differs per directory so that resolving to
    // the wrong same-named file changes the output
    let mut s = String::from("(\n");
    for n in nested {
        s.push_str(&format!("  (include {n})\n"));
    }
    s.push_str(&format!("  (defconstant KC_{tag} {})\n", 1000 * (dirn + 1) + tag));
    if c.chance(128) {
        s.push_str(&format!("  (defun-inline fi_{tag} (X) (+ X KC_{tag}))\n"));
    }
    s.push_str(")\n");
    s
}

pub fn gen_fs(c: &mut Choices) -> FsCase {
    let root = tempfile::Builder::new().prefix("c18-").tempdir_in(std::env::temp_dir()).expect("tempdir");
    let ndirs = c.range(1, 4);
    let dirs: Vec<PathBuf> = (0..ndirs)
        .map(|i| {
            let p = root.path().join(format!("inc{i}"));
            std::fs::create_dir_all(&p).unwrap();
            p
        })
        .collect();
    // permute the search order
    let mut order: Vec<usize> = (0..ndirs).collect();
    for i in (1..order.len()).rev() {
        let j = c.pick(i + 1);
        order.swap(i, j);
    }
    let search: Vec<String> = order.iter().map(|i| dirs[*i].to_string_lossy().to_string()).collect();
    let d = *c.choose(&[Dialect::Classic, Dialect::Cl21, Dialect::Strict21, Dialect::Cl22, Dialect::Cl23, Dialect::Cl231, Dialect::Cl24]);
    // the non-strict modern dialects do not process includes inside included files (their
    // frontend rejects the nested form): nested edges are generated for classic and for the
    // strict dialects only
    let nested_ok = d == Dialect::Classic || d.strict();
    // layered DAG of library files
    let depth = c.range(0, 4);
    let mut layers: Vec<Vec<String>> = vec![];
    let mut placed: BTreeMap<String, Vec<usize>> = BTreeMap::new();
    let mut tag = 0usize;
    let mut has_dup = false;
    let mut edges: BTreeMap<String, Vec<String>> = BTreeMap::new();
    for layer in (0..depth).rev() {
        let width = c.range(1, 2);
        let mut names = vec![];
        for _ in 0..width {
            tag += 1;
            let name = format!("lib{tag}_l{layer}.{}", if c.chance(128) { "clib" } else { "clinc" });
            // nested includes point to the next deeper layer
            let deeper: Vec<String> = if nested_ok { layers.last().map(|l: &Vec<String>| l.iter().filter(|_| c.chance(160)).cloned().collect()).unwrap_or_default() } else { vec![] };
            edges.insert(name.clone(), deeper.clone());
            // place in 1..ndirs directories (same name, different contents)
            let copies = if ndirs > 1 && c.chance(110) { c.range(2, ndirs) } else { 1 };
            if copies > 1 {
                has_dup = true;
            }
            let mut where_: Vec<usize> = vec![];
            let first = c.pick(ndirs);
            for k in 0..copies {
                let d = (first + k) % ndirs;
                where_.push(d);
                let text = lib_text(c, tag, d, &deeper);
                std::fs::write(dirs[d].join(&name), text).unwrap();
            }
            placed.insert(name.clone(), where_);
            names.push(name);
        }
        layers.push(names);
    }
    // decoys
    for k in 0..c.range(0, 2) {
        let d = c.pick(ndirs);
        std::fs::write(dirs[d].join(format!("decoy{k}.clib")), "((defconstant DECOY 1))\n").unwrap();
    }
    // main program
    let mut main = String::from("(mod (A)\n");
    if d != Dialect::Classic {
        main.push_str(&format!("  (include {})\n", d.sigil()));
    }
    let mut expected: BTreeSet<String> = BTreeSet::new();
    let top: Vec<String> = if nested_ok { layers.last().cloned().unwrap_or_default() } else { layers.iter().flatten().cloned().collect() };
    let mut used_consts: Vec<String> = vec![];
    // a file of the same name one directory down, included by its relative path next to the
    // plain one (two different files whose paths share their tail)
    let sub_of: Option<String> = if !top.is_empty() && c.chance(80) { Some(top[c.pick(top.len())].clone()) } else { None };
    let sub_first = c.chance(128);
    let mut sub_line = String::new();
    if let Some(n) = &sub_of {
        tag += 1;
        let dsel = placed[n][0];
        std::fs::create_dir_all(dirs[dsel].join("sub")).unwrap();
        let text = lib_text(c, tag, dsel, &[]);
        std::fs::write(dirs[dsel].join("sub").join(n), text).unwrap();
        placed.insert(format!("sub/{n}"), vec![dsel]);
        sub_line = format!("  (include sub/{n})\n");
        if sub_first {
            main.push_str(&sub_line);
        }
    }
    for n in &top {
        main.push_str(&format!("  (include {n})\n"));
    }
    if sub_of.is_some() && !sub_first {
        main.push_str(&sub_line);
    }
    // closure over the model
    let mut work = top.clone();
    while let Some(n) = work.pop() {
        if expected.insert(n.clone()) {
            let t: usize = n.trim_start_matches("lib").split('_').next().unwrap().parse().unwrap_or(0);
            used_consts.push(format!("KC_{t}"));
            for e in edges.get(&n).cloned().unwrap_or_default() {
                work.push(e);
            }
        }
    }
    if let Some(n) = &sub_of {
        expected.insert(format!("sub/{n}"));
        used_consts.push(format!("KC_{tag}"));
    }
    // embeds
    let mut has_embed = false;
    let nemb = if d == Dialect::Classic { 0 } else { c.range(0, 2) };
    for k in 0..nemb {
        has_embed = true;
        let kind = *c.choose(&["bin", "hex", "sexp"]);
        let name = format!("data{k}.{kind}");
        let copies = if ndirs > 1 && c.chance(100) { 2 } else { 1 };
        if copies > 1 {
            has_dup = true;
        }
        let first = c.pick(ndirs);
        let mut where_ = vec![];
        for j in 0..copies {
            let dd = (first + j) % ndirs;
            where_.push(dd);
            let content: Vec<u8> = match kind {
                "bin" => format!("binary-{dd}-{k}").into_bytes(),
                "hex" => format!("ff0{}ff0{}80", dd + 1, k + 1).into_bytes(),
                _ => format!("({} {} {})", dd + 1, k + 1, 7).into_bytes(),
            };
            std::fs::write(dirs[dd].join(&name), content).unwrap();
        }
        placed.insert(name.clone(), where_);
        expected.insert(name.clone());
        main.push_str(&format!("  (embed-file EMB_{k} {kind} {name})\n"));
        used_consts.push(format!("EMB_{k}"));
    }
    main.push_str("  (list A");
    for k in &used_consts {
        main.push(' ');
        main.push_str(k);
    }
    main.push_str(")\n)\n");
    let main_path = root.path().join("main.clsp").to_string_lossy().to_string();
    std::fs::write(&main_path, &main).unwrap();
    // dir indices are positions in `dirs`; `search` is the permuted order
    let placed_by_search: BTreeMap<String, Vec<usize>> = placed
        .into_iter()
        .map(|(n, ds)| (n, ds.into_iter().map(|d| order.iter().position(|o| *o == d).unwrap()).collect()))
        .collect();
    FsCase {
        root,
        search,
        main_path,
        main_text: main,
        placed: placed_by_search,
        expected_names: expected,
        depth,
        has_dup,
        has_embed,
    }
}

/// the model's resolution: first directory in search order that has the name
fn resolve(fc: &FsCase, name: &str) -> Option<String> {
    let ds = fc.placed.get(name)?;
    let first = *ds.iter().min()?;
    Some(PathBuf::from(&fc.search[first]).join(name).to_string_lossy().to_string())
}

fn detect(text: &str) -> Option<Dialect> {
    MODERN.iter().copied().find(|d| text.contains(d.sigil()))
}

pub fn judge(fc: &FsCase, st: &mut Stats) -> Result<bool, Viol> {
    let d = detect(&fc.main_text);
    st.label(&format!("dialect:{}", d.map(|d| d.name()).unwrap_or("classic")));
    let case = |extra: Value| {
        let mut files = BTreeMap::new();
        for (n, ds) in &fc.placed {
            files.insert(n.clone(), ds.iter().map(|i| fc.search[*i].clone()).collect::<Vec<_>>());
        }
        let mut contents = serde_json::Map::new();
        let mut dirnames = vec![];
        for dir in &fc.search {
            let dn = PathBuf::from(dir).file_name().map(|f| f.to_string_lossy().to_string()).unwrap_or_default();
            let mut m = serde_json::Map::new();
            if let Ok(rd) = std::fs::read_dir(dir) {
                for e in rd.flatten() {
                    if let Ok(t) = std::fs::read(e.path()) {
                        m.insert(e.file_name().to_string_lossy().to_string(), json!(String::from_utf8_lossy(&t).to_string()));
                    } else if let Ok(rd2) = std::fs::read_dir(e.path()) {
                        // one level of sub-directories
                        for e2 in rd2.flatten() {
                            if let Ok(t) = std::fs::read(e2.path()) {
                                m.insert(format!("{}/{}", e.file_name().to_string_lossy(), e2.file_name().to_string_lossy()), json!(String::from_utf8_lossy(&t).to_string()));
                            }
                        }
                    }
                }
            }
            contents.insert(dn.clone(), Value::Object(m));
            dirnames.push(dn);
        }
        json!({"main": fc.main_text, "search_path": fc.search, "search_dirs": dirnames, "files": files, "file_contents": contents,
               "expected_names": fc.expected_names.iter().cloned().collect::<Vec<_>>(), "detail": extra})
    };
    // what the compiler actually reads (modern dialects: through the recording opts)
    let mut actually_read: Vec<(String, String)> = vec![];
    let mut compiled_ok = false;
    if let Some(d) = d {
        let log = Rc::new(RefCell::new(vec![]));
        let base: Rc<dyn CompilerOpts> = Rc::new(chialisp::compiler::compiler::DefaultCompilerOpts::new(&fc.main_path))
            .set_dialect(sut::accepted_dialect(d.sigil()))
            .set_search_paths(&fc.search)
            .set_optimize(ModernOpts::cli_default(d.stepping()).optimize)
            .set_frontend_opt(ModernOpts::cli_default(d.stepping()).frontend_opt);
        let rec: Rc<dyn CompilerOpts> = Rc::new(Recorder { inner: base, log: log.clone() });
        let mut a = clvmr::Allocator::new();
        let runner: Rc<dyn TRunProgram> = Rc::new(DefaultProgramRunner::new());
        let mut syms = std::collections::HashMap::new();
        match chialisp::compiler::compiler::compile_file(&mut a, runner, rec, &fc.main_text, &mut syms) {
            Ok(_) => compiled_ok = true,
            Err(e) => st.reject(&format!("[compile] {}", e.1.chars().take(90).collect::<String>())),
        }
        actually_read = log.borrow().iter().filter(|(n, _)| !n.starts_with('*')).cloned().collect();
    } else {
        match sut::compile_lib(&fc.main_text, false, &fc.search) {
            Ok(_) => compiled_ok = true,
            Err(m) => st.reject(&format!("[classic compile] {}", m.chars().take(90).collect::<String>())),
        }
    }
    if !compiled_ok {
        return Ok(false);
    }
    // the listing, obtained the way the command line does (-M)
    let opts: Rc<dyn CompilerOpts> = Rc::new(chialisp::compiler::compiler::DefaultCompilerOpts::new(&fc.main_path)).set_search_paths(&fc.search);
    let listed: Vec<String> = match gather_dependencies(opts, &fc.main_path, &fc.main_text) {
        Ok(l) => l.iter().map(|i| String::from_utf8_lossy(&i.name).to_string()).collect(),
        Err(e) => {
            return Err(Viol::new("listing-fails-for-a-program-that-compiles", "a dependency list", format!("{}: {}", e.0, e.1), case(json!({}))));
        }
    };
    let listed_set: BTreeSet<String> = listed.iter().cloned().collect();
    // (2)/(3): every listed name is an existing path and is the first match in search order
    for l in &listed {
        let p = PathBuf::from(l);
        if !p.exists() {
            return Err(Viol::new("listed-name-is-not-an-existing-path", "an existing path", l.clone(), case(json!({"listed": listed}))));
        }
        // the model name this listed path stands for: the longest modelled name the path ends with
        // at a path-component boundary ("sub/x.clib" before "x.clib")
        let base = fc
            .placed
            .keys()
            .filter(|n| l.ends_with(&format!("/{n}")))
            .max_by_key(|n| n.len())
            .cloned()
            .unwrap_or_else(|| p.file_name().map(|f| f.to_string_lossy().to_string()).unwrap_or_default());
        if let Some(want) = resolve(fc, &base) {
            if &want != l {
                return Err(Viol::new("listed-file-is-not-the-first-match", want, l.clone(), case(json!({"listed": listed}))));
            }
        }
    }
    // the compiler itself reads the first match (validates the model, and clause 2 on the read side)
    for (name, full) in &actually_read {
        if let Some(want) = resolve(fc, name) {
            if &want != full {
                return Err(Viol::new("compiler-read-a-later-same-named-file", want, full.clone(), case(json!({"include": name}))));
            }
        }
        // (1) everything read is listed
        if !listed_set.contains(full) {
            return Err(Viol::new("file-read-but-not-listed", format!("{full} in the listing"), format!("{listed:?}"), case(json!({"include": name}))));
        }
    }
    // (1) against the model (covers the classic compiler, where reads are not recorded)
    for n in &fc.expected_names {
        if let Some(want) = resolve(fc, n) {
            if !listed_set.contains(&want) {
                return Err(Viol::new("model-reachable-file-not-listed", format!("{want} in the listing"), format!("{listed:?}"), case(json!({"include": n}))));
            }
        }
    }
    st.labeln("files_listed", listed.len() as u64);
    Ok(true)
}

impl Prop for C18Prop {
    fn id(&self) -> &'static str {
        "C18"
    }
    fn rule(&self) -> &'static str {
        "Generated include trees on disk: 1..4 search directories in a generated order, a layered DAG of library files of depth 0..4 (includes that include), the same file name placed in several directories with different contents, a same-named file one directory down included by its relative path (sub/NAME next to NAME), embed-file bin/hex/sexp targets, decoy files, every sigil and classic. The listing is gather_dependencies (what -M prints); the files actually read are observed through a recording CompilerOpts (HasCompilerOptsDelegation, overriding read_new_file and propagated through every set_*) during compile_file, and independently derived from the generated graph. Oracle: (1) every file read (recorded or model-reachable) is listed under the path actually read; (2) every listed name is an existing path and is the first match in search-path order; (3) the compiler itself never reads a later same-named file. Over-listing is allowed. Non-trivial: depth >= 2, a duplicated file name, or an embed. Distinct by hash of main text + search order."
    }
    fn sections(&self, tier: Tier) -> Vec<Section> {
        vec![Section {
            name: "random",
            kind: SectionKind::Random {
                cases: tier.pick(1_500, 20_000),
                maxlen: 300,
            },
            exhaustive: false,
            what: "generated include trees x search-path orders x sigils",
        }]
    }
    fn run(&self, _sec: &str, input: &Input, _tier: Tier, st: &mut Stats) -> Verdict {
        let Input::Bytes(bytes) = input else {
            return Verdict::Skip("index input not used");
        };
        let mut c = Choices::new(bytes);
        let fc = gen_fs(&mut c);
        st.label("random_case");
        if fc.has_dup {
            st.label("duplicated-file-name");
        }
        if fc.has_embed {
            st.label("embed-file");
        }
        st.label(&format!("depth:{}", fc.depth));
        match judge(&fc, st) {
            Err(v) => Verdict::Violation(Box::new(v)),
            Ok(false) => Verdict::Skip("program does not compile"),
            Ok(true) => {
                st.label("checked");
                if fc.depth >= 2 || fc.has_dup || fc.has_embed {
                    let key = format!("{}|{:?}", fc.main_text, fc.placed);
                    st.nontrivial(fnv(key.as_bytes()));
                    st.sample(|| json!({"main": fc.main_text, "files": fc.placed, "search_dirs": fc.search.len(), "depth": fc.depth}));
                }
                Verdict::Pass
            }
        }
    }
    fn sut_crash_is_violation(&self) -> bool {
        false
    }
    fn known(&self, v: &Viol) -> Option<&'static str> {
        // -M runs the modern frontend in its non-strict mode, which does not process an include
        // inside an included file: the listing of a classic program with nested includes fails
        if v.sig == "listing-fails-for-a-program-that-compiles" && v.observed.contains("unknown keyword in helper") {
            let main = v.case.get("main")?.as_str()?;
            if !main.contains("(include *") {
                return Some("listing-fails-for-classic-programs-with-nested-includes");
            }
        }
        None
    }
    fn replay(&self, case: &Value, st: &mut Stats) -> Option<Verdict> {
        // rebuild the tree on disk from the readable fields
        let main = case.get("main")?.as_str()?;
        let files = case.get("file_contents")?.as_object()?;
        let root = tempfile::Builder::new().prefix("c18r-").tempdir_in(std::env::temp_dir()).ok()?;
        let mut search = vec![];
        let mut placed: BTreeMap<String, Vec<usize>> = BTreeMap::new();
        for (di, dname) in case.get("search_dirs")?.as_array()?.iter().enumerate() {
            let p = root.path().join(dname.as_str()?);
            std::fs::create_dir_all(&p).ok()?;
            search.push(p.to_string_lossy().to_string());
            if let Some(fs) = files.get(dname.as_str()?).and_then(|f| f.as_object()) {
                for (fname, content) in fs {
                    if let Some(parent) = p.join(fname).parent() {
                        std::fs::create_dir_all(parent).ok()?;
                    }
                    std::fs::write(p.join(fname), content.as_str()?).ok()?;
                    placed.entry(fname.clone()).or_default().push(di);
                }
            }
        }
        let main_path = root.path().join("main.clsp").to_string_lossy().to_string();
        std::fs::write(&main_path, main).ok()?;
        let expected_names: BTreeSet<String> = case.get("expected_names")?.as_array()?.iter().filter_map(|x| x.as_str().map(|s| s.to_string())).collect();
        let fc = FsCase { root, search, main_path, main_text: main.to_string(), placed, expected_names, depth: 0, has_dup: false, has_embed: false };
        Some(match judge(&fc, st) {
            Err(v) => Verdict::Violation(Box::new(v)),
            Ok(_) => Verdict::Pass,
        })
    }
    fn health_floors(&self, _tier: Tier) -> Vec<(&'static str, &'static str, f64)> {
        vec![("checked", "random_case", 0.7)]
    }
}
