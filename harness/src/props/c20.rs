//! C20 — all operator tables agree with each other and with the evaluator (finite, exhaustive).

use crate::core::*;
use crate::gen_value::*;
use crate::sut;
use chialisp::classic::clvm::{keyword_from_atom, keyword_to_atom};
use chialisp::classic::clvm_tools::binutils::{assemble, disassemble};
use chialisp::compiler::prims::prims;
use serde_json::{json, Value};
use std::collections::{BTreeMap, BTreeSet};

pub struct C20Prop;
pub static C20: C20Prop = C20Prop;

fn hx(s: &str) -> V {
    V::A(hex::decode(s).unwrap())
}
fn s(t: &str) -> V {
    V::A(t.as_bytes().to_vec())
}

/// one row per operator: operand values on which the operator succeeds (or `None` when the
/// operator must raise: `x`).  Operands from clvmr's documentation and the repository's tests.
fn canned(name: &str) -> Option<(Vec<V>, bool)> {
    let g1 = hx("97f1d3a73197d7942695638c4fa9ac0fc3688c4f9774b905a14e3a3f171bac586c55e83ff97a1aeffb3af00adb22c6bb");
    let g2 = hx("93e02b6052719f607dacd3a088274f65596bd0d09920b61ab5da61bbdc7f5049334cf11213945d57e5ac7d055d042b7e024aa2b2f08f0a91260805272dc51051c6e47ad4fa403b02b4510b647ae3d1770bac0326a805bbefd48056c8c121bdb8");
    let ok = |v: Vec<V>| Some((v, true));
    match name {
        "q" => ok(vec![]),
        "a" => ok(vec![cons(int(1), int(7)), nil()]),
        "i" => ok(vec![int(1), int(2), int(3)]),
        "c" => ok(vec![int(1), int(2)]),
        "f" | "r" | "l" => ok(vec![cons(int(1), int(2))]),
        "x" => Some((vec![int(1)], false)),
        "=" => ok(vec![int(5), int(5)]),
        ">s" => ok(vec![s("b"), s("a")]),
        "sha256" | "keccak256" | "g1_map" | "g2_map" => ok(vec![s("abc")]),
        "substr" => ok(vec![s("hello"), int(1), int(3)]),
        "strlen" => ok(vec![s("hello")]),
        "concat" => ok(vec![s("ab"), s("cd")]),
        "+" | "-" | "*" | "/" | "divmod" | ">" | "%" => ok(vec![int(7), int(3)]),
        "ash" | "lsh" => ok(vec![int(1), int(3)]),
        "logand" | "logior" | "logxor" => ok(vec![int(6), int(3)]),
        "lognot" => ok(vec![int(5)]),
        "point_add" | "g1_subtract" => ok(vec![g1.clone(), g1]),
        "pubkey_for_exp" => ok(vec![int(1)]),
        "not" => ok(vec![nil()]),
        "any" => ok(vec![nil(), int(1)]),
        "all" => ok(vec![int(1), int(1)]),
        "coinid" => ok(vec![V::A(vec![0x11; 32]), V::A(vec![0x22; 32]), int(1)]),
        "g1_multiply" => ok(vec![g1, int(2)]),
        "g1_negate" => ok(vec![g1]),
        "g2_add" | "g2_subtract" => ok(vec![g2.clone(), g2]),
        "g2_multiply" => ok(vec![g2, int(2)]),
        "g2_negate" => ok(vec![g2]),
        "bls_pairing_identity" => ok(vec![]),
        "bls_verify" => ok(vec![
            hx("b00ab9a8af54804b43067531d96c176710c05980fccf8eee1ae12a4fd543df929cce860273af931fe4fdbc407d495f73114ab7d17ef08922e56625daada0497582340ecde841a9e997f2f557653c21c070119662dd2efa47e2d6c5e2de00eefa"),
            hx("86243290bbcbfd9ae75bdece7981965350208eb5e99b04d5cd24e955ada961f8c0a162dee740be7bdc6c3c0613ba2eb1"),
            hx("0102030405"),
        ]),
        "modpow" => ok(vec![int(2), int(10), int(1000)]),
        "secp256k1_verify" => ok(vec![
            hx("02390b19842e100324163334b16947f66125b76d4fa4a11b9ccdde9b7398e64076"),
            hx("85932e4d075615be881398cc765f9f78204033f0ef5f832ac37e732f5f0cbda2"),
            hx("481477e62a1d02268127ae89cc58929e09ad5d30229721965ae35965d098a5f630205a7e69f4cb8084f16c7407ed7312994ffbf87ba5eb1aee16682dd324943e"),
        ]),
        "secp256r1_verify" => ok(vec![
            hx("033e1a1b2ccbc35883c60fdfc3f4a02175096ade6271fe85517ca5772594bbd0dc"),
            hx("85932e4d075615be881398cc765f9f78204033f0ef5f832ac37e732f5f0cbda2"),
            hx("eae2f488080919bd0a7069c24cdd9c6ce2db423861b0c9d4236cdadbd0005f6d8f3709e6eb19249fd9c8bea664aba35218e67ea4b0f2239488dc3147f336e1e6"),
        ]),
        // softfork's guard needs the exact cost of the guarded program; it is checked in the
        // tables but has no run row (stated in the evidence)
        "softfork" => None,
        _ => None,
    }
}

fn all_names() -> Vec<String> {
    let mut set: BTreeSet<String> = BTreeSet::new();
    for v in 0..=2 {
        for k in keyword_to_atom(v).keys() {
            set.insert(k.clone());
        }
        for k in keyword_from_atom(v).values() {
            set.insert(k.clone());
        }
    }
    for (n, _) in prims() {
        set.insert(String::from_utf8_lossy(&n).to_string());
    }
    set.into_iter().collect()
}

fn prims_map() -> BTreeMap<String, Vec<u8>> {
    let mut m = BTreeMap::new();
    for (n, v) in prims() {
        let bytes = match &v {
            chialisp::compiler::sexp::SExp::Integer(_, i) => {
                // opcodes are unsigned byte strings
                let (_, b) = i.to_bytes_be();
                b
            }
            other => sut::from_rich(std::rc::Rc::new(other.clone()), true)
                .ok()
                .and_then(|v| match v {
                    V::A(b) => Some(b),
                    _ => None,
                })
                .unwrap_or_default(),
        };
        m.insert(String::from_utf8_lossy(&n).to_string(), bytes);
    }
    m
}

fn introduced_in(name: &str) -> Option<usize> {
    (0..=2).find(|v| keyword_to_atom(*v).contains_key(name))
}

fn viol(sig: &str, exp: impl Into<String>, obs: impl Into<String>, case: Value) -> Verdict {
    Verdict::Violation(Box::new(Viol::new(sig, exp, obs, case)))
}

fn check_tables(name: &str) -> Verdict {
    let case = json!({"name": name});
    let pm = prims_map();
    let classic = keyword_to_atom(2).get(name).cloned();
    let modern = pm.get(name).cloned();
    // same name set, same bytes
    match (&classic, &modern) {
        (Some(c), Some(m)) => {
            if c != m {
                return viol("tables:opcode-differs-classic-vs-modern", hex(c), hex(m), case);
            }
        }
        (Some(_), None) => return viol("tables:name-missing-in-modern-prims", "present", "absent", case),
        (None, Some(_)) => return viol("tables:name-missing-in-classic-v2", "present", "absent", case),
        (None, None) => return viol("tables:name-in-no-latest-table", "present", "absent", case),
    }
    let op = classic.unwrap();
    // inverse within each version, monotone versions
    let mut seen = false;
    for v in 0..=2usize {
        let to = keyword_to_atom(v);
        let from = keyword_from_atom(v);
        match to.get(name) {
            Some(o) => {
                seen = true;
                if o != &op {
                    return viol("tables:opcode-changes-between-versions", hex(&op), hex(o), json!({"name": name, "version": v}));
                }
                if from.get(o).map(|s| s.as_str()) != Some(name) {
                    return viol("tables:from(to(name))!=name", name, format!("{:?}", from.get(o)), json!({"name": name, "version": v}));
                }
            }
            None => {
                if seen {
                    return viol("tables:version-drops-name", "present", "absent", json!({"name": name, "version": v}));
                }
                if from.contains_key(&op) {
                    return viol("tables:to(from(op))!=op", "absent", format!("{:?}", from.get(&op)), json!({"name": name, "version": v}));
                }
            }
        }
    }
    // assembler
    let mut a = clvmr::Allocator::new();
    match assemble(&mut a, &format!("({name})")) {
        Ok(n) => {
            let got = V::from_node(&a, n);
            let want = list(vec![V::A(op.clone())]);
            if got != want {
                return viol("assemble:name-gives-other-opcode", want.show(), got.show(), case);
            }
        }
        Err(e) => return viol("assemble:name-rejected", "ok", format!("{e}"), case),
    }
    // disassembler per version.  The property is about what a name denotes, so the clause is:
    // whatever is printed for (op 2) re-assembles to the same opcode; a name is only ever
    // printed for its own opcode and only from its introducing version on; and opcodes inside
    // the disassembler's keyword window (atoms of <= 2 bytes) are printed by name from that
    // version on.  (The 4-byte secp opcodes are printed as hex by design of ir_for_atom; that
    // is not a disagreement about what a name denotes.  An earlier version of this check
    // demanded the name there and raised a false alarm; see DESIGN 5.3.)
    let intro = introduced_in(name).unwrap_or(0);
    for v in 0..=2usize {
        let mut a = clvmr::Allocator::new();
        let t = list(vec![V::A(op.clone()), int(2)]);
        let n = t.to_node(&mut a);
        let text = disassemble(&a, n, Some(v));
        let head: String = text.trim_start_matches('(').split(' ').next().unwrap_or("").to_string();
        let vcase = json!({"name": name, "version": v, "printed": text});
        match assemble(&mut a, &text) {
            Ok(n2) => {
                let back = V::from_node(&a, n2);
                if back != t {
                    return viol("disassemble:text-reassembles-to-other-opcode", t.show(), back.show(), vcase);
                }
            }
            Err(e) => return viol("disassemble:text-rejected-by-assembler", "accepted", format!("{e}"), vcase),
        }
        let printed_a_name = keyword_to_atom(2).contains_key(&head);
        if printed_a_name && head != name {
            return viol("disassemble:opcode-printed-under-another-name", name, head, vcase);
        }
        if printed_a_name && v < intro {
            return viol("disassemble:name-printed-before-its-version", "numeric", text, vcase);
        }
        if op.len() <= 2 && v >= intro && !printed_a_name {
            return viol("disassemble:opcode-not-printed-as-name", format!("({name} 2)"), text, vcase);
        }
    }
    // modern reader: #name reads to the opcode
    match sut::parse_one(&format!("#{name}")) {
        Ok(r) => match sut::from_rich(r, true) {
            Ok(V::A(b)) if b == op => {}
            Ok(o) => return viol("reader:#name-gives-other-opcode", hex(&op), o.show(), case),
            Err(e) => return viol("reader:#name-does-not-encode", hex(&op), e, case),
        },
        Err(e) => return viol("reader:#name-rejected", "ok", e, case),
    }
    Verdict::Pass
}

fn quote(v: &V) -> V {
    cons(int(1), v.clone())
}

fn render_val(v: &V) -> String {
    // argument rendering for source programs: hex atoms, lists with dots
    v.show()
}

fn check_run(name: &str, st: &mut Stats) -> Verdict {
    let Some((operands, succeeds)) = canned(name) else {
        return Verdict::Skip("no run row (softfork)");
    };
    let case = json!({"name": name, "operands": operands.iter().map(|o| o.show()).collect::<Vec<_>>()});
    let op = keyword_to_atom(2).get(name).cloned().unwrap_or_default();
    // (1) assembled + consensus
    let prog = if name == "q" {
        cons(V::A(op.clone()), int(5))
    } else {
        list_tail(vec![V::A(op.clone())], list(operands.iter().map(quote).collect()))
    };
    let reference = sut::run_consensus(&prog, &nil(), 11_000_000_000);
    if reference.is_ok() != succeeds {
        return viol("run:canned-row-unexpected-in-consensus", format!("succeeds={succeeds}"), format!("{reference:?}"), case);
    }
    // the tools' own runner object, latest version
    let tool = sut::run_tool_runner(&prog, &nil(), 11_000_000_000, 2);
    if tool.is_ok() != reference.is_ok() || (tool.is_ok() && tool.as_ref().ok() != reference.as_ref().ok()) {
        return viol("run:tool-runner-differs-from-consensus", format!("{reference:?}"), format!("{tool:?}"), case);
    }
    // operator-set version gating of the tools' runner: an operator introduced in version k is
    // not available below k
    if let Some(k) = introduced_in(name) {
        for v in 0..k {
            if name == "q" {
                continue;
            }
            let r = sut::run_tool_runner(&prog, &nil(), 11_000_000_000, v);
            if r.is_ok() && succeeds {
                return viol("run:operator-available-before-its-version", "rejected", format!("{r:?}"), json!({"name": name, "version": v}));
            }
        }
    }
    // (3) stepping evaluator on the compiled (numeric opcode) form
    let step = {
        let rich = sut::to_rich(&prog, true);
        match rich {
            Ok(r) => sut::run_stepper(r, &nil(), 2_000_000),
            Err(e) => Err(e),
        }
    };
    match (&reference, &step) {
        (Ok(a), Ok(b)) if a == b => {}
        (Err(_), Err(_)) => {}
        _ => return viol("run:stepper-differs-from-consensus", format!("{reference:?}"), format!("{step:?}"), case),
    }
    // (2) compiled from source by the classic and the modern compilers
    if name != "q" {
        let params: Vec<String> = (0..operands.len()).map(|i| format!("A{i}")).collect();
        let call = format!("({} {})", name, params.join(" "));
        let env = list(operands.clone());
        for (label, sigil) in [("classic", ""), ("cl21", "(include *standard-cl-21*)"), ("cl23", "(include *standard-cl-23*)")] {
            let src = format!("(mod ({}) {} {})", params.join(" "), sigil, call);
            match sut::compile_lib(&src, false, &[]) {
                Ok(code) => {
                    let r = sut::run_consensus(&code, &env, 11_000_000_000);
                    let agree = match (&reference, &r) {
                        (Ok(a), Ok(b)) => a == b,
                        (Err(_), Err(_)) => true,
                        _ => false,
                    };
                    if !agree {
                        return viol(
                            &format!("run:{label}-compiled-differs-from-assembled"),
                            format!("{reference:?}"),
                            format!("{r:?}"),
                            json!({"name": name, "source": src, "args": render_val(&env), "compiled": code.show()}),
                        );
                    }
                }
                Err(e) => {
                    return viol(&format!("run:{label}-compile-rejects-operator"), "compiles", e, json!({"name": name, "source": src}));
                }
            }
        }
    }
    st.sample(|| json!({"name": name, "opcode": hex(&op), "assembled_result": reference.as_ref().map(|v| v.show()).map_err(|e| e.clone())}));
    Verdict::Pass
}

fn table_opcodes() -> BTreeSet<Vec<u8>> {
    let mut s = BTreeSet::new();
    for v in keyword_to_atom(2).values() {
        s.insert(v.clone());
    }
    for v in prims_map().values() {
        s.insert(v.clone());
    }
    s
}

fn check_unknown(opbyte: u64) -> Verdict {
    let op: Vec<u8> = if opbyte < 256 {
        if opbyte == 0 {
            vec![]
        } else {
            vec![opbyte as u8]
        }
    } else {
        // neighbours of the two 4-byte secp opcodes
        match opbyte - 256 {
            0 => vec![0x13, 0xd6, 0x1f, 0x01],
            1 => vec![0x1c, 0x3a, 0x8f, 0x01],
            2 => vec![0x13, 0xd6, 0x1f],
            _ => vec![0x00, 0x3d],
        }
    };
    let known = table_opcodes().contains(&op);
    let prog = list(vec![V::A(op.clone()), quote(&int(7)), quote(&int(3))]);
    let case = json!({"opcode": hex(&op), "program": prog.show()});
    let tool = sut::run_tool_runner(&prog, &nil(), 11_000_000_000, 2);
    let step = match sut::to_rich(&prog, true) {
        Ok(r) => sut::run_stepper(r, &nil(), 100_000),
        Err(e) => Err(e),
    };
    if !known {
        if tool.is_ok() {
            return viol("unknown-op:accepted-by-tool-runner", "rejected", format!("{tool:?}"), case);
        }
        if step.is_ok() {
            return viol("unknown-op:accepted-by-stepper", "rejected", format!("{step:?}"), case);
        }
    } else {
        // known opcodes: the stepper and the runner agree on (op 7 3)
        let agree = match (&tool, &step) {
            (Ok(a), Ok(b)) => a == b,
            (Err(_), Err(_)) => true,
            _ => false,
        };
        if !agree && op != [1] && op != [36] {
            return viol("known-op:stepper-differs-on-(op 7 3)", format!("{tool:?}"), format!("{step:?}"), case);
        }
    }
    Verdict::Pass
}

impl Prop for C20Prop {
    fn id(&self) -> &'static str {
        "C20"
    }
    fn rule(&self) -> &'static str {
        "The finite set, enumerated completely: every operator name in any table (classic keyword tables v0,v1,v2; prims()): same name set and opcode bytes in classic v2 and prims(); from(to(name))==name and to(from(op))==op per version; versions only add names; assemble((name)) gives the opcode; disassemble((op 2)) prints the name exactly from its introducing version on; #name reads to the opcode. Per name a one-operator program with canned valid operands: assembled and run by clvmr == the tools' runner (latest version; rejected below the introducing version) == stepping evaluator on the numeric form == classic-compiled, cl21-compiled and cl23-compiled source run by clvmr. Every opcode 0..255 (plus 4 multi-byte neighbours) not in the tables is rejected by the tools' runner and by the stepping evaluator; known ones agree on (op 7 3). Every row is non-trivial and distinct by construction."
    }
    fn sections(&self, _tier: Tier) -> Vec<Section> {
        let n = all_names().len() as u64;
        vec![
            Section {
                name: "tables",
                kind: SectionKind::Enum { count: n },
                exhaustive: true,
                what: "every operator name known to any table: table agreement, inverses, version monotonicity, assembler, disassembler per version, #name reader",
            },
            Section {
                name: "run_per_name",
                kind: SectionKind::Enum { count: n },
                exhaustive: true,
                what: "one-operator program per name: consensus vs tools' runner vs stepping evaluator vs classic/cl21/cl23 compiled source",
            },
            Section {
                name: "opcodes",
                kind: SectionKind::Enum { count: 260 },
                exhaustive: true,
                what: "every single-byte opcode 0..255 and 4 multi-byte neighbours: unknown ones rejected by runner and stepper",
            },
        ]
    }
    fn run(&self, sec: &str, input: &Input, _tier: Tier, st: &mut Stats) -> Verdict {
        let Input::Index(i) = input else {
            return Verdict::Skip("bytes input not used");
        };
        match sec {
            "tables" => {
                let names = all_names();
                let name = &names[*i as usize];
                let v = check_tables(name);
                if matches!(v, Verdict::Pass) {
                    st.nontrivial(*i);
                    st.label("table_row");
                    st.sample(|| json!({"name": name, "opcode": keyword_to_atom(2).get(name).map(|b| hex(b)), "introduced_in_version": introduced_in(name)}));
                }
                v
            }
            "run_per_name" => {
                let names = all_names();
                let name = names[*i as usize].clone();
                let v = check_run(&name, st);
                if matches!(v, Verdict::Pass) {
                    st.nontrivial(1000 + *i);
                    st.label("run_row");
                }
                v
            }
            "opcodes" => {
                let v = check_unknown(*i);
                if matches!(v, Verdict::Pass) {
                    st.nontrivial(2000 + *i);
                    st.label("opcode_row");
                }
                v
            }
            _ => Verdict::Skip("unknown section"),
        }
    }
    fn replay(&self, case: &Value, st: &mut Stats) -> Option<Verdict> {
        if let Some(name) = case.get("name").and_then(|n| n.as_str()) {
            let t = check_tables(name);
            if !matches!(t, Verdict::Pass) {
                return Some(t);
            }
            return Some(check_run(name, st));
        }
        if let Some(h) = case.get("opcode").and_then(|n| n.as_str()) {
            let b = hex::decode(h).ok()?;
            if b.len() <= 1 {
                return Some(check_unknown(b.first().copied().unwrap_or(0) as u64));
            }
        }
        None
    }
    fn shards(&self, _tier: Tier) -> Option<usize> {
        Some(8)
    }
}
