//! C17 — an argument reported as unused really cannot influence the result.

use crate::choices::{fnv, Choices};
use crate::core::*;
use crate::gen_lisp::*;
use crate::gen_value::*;
use crate::props::c01::{decode_case, disasm, RUN_COST};
use crate::sut::{self, ModernOpts};
use chialisp::compiler::comptypes::CompilerOpts;
use serde_json::{json, Value};
use std::rc::Rc;

pub struct C17Prop;
pub static C17: C17Prop = C17Prop;

fn cfg(tier: Tier) -> GenCfg {
    let mut c = GenCfg::modern(tier == Tier::Quick);
    c.lowercase = true;
    c.max_params = 8;
    c
}

/// exactly what the command line does for --check-unused-args
/// the unused-argument report computed in a child process with a wall-clock limit; None when the
/// child does not finish (or dies)
pub fn unused_report_bounded(text: &str, secs: u64) -> Option<Result<Vec<String>, String>> {
    use std::io::Write;
    use std::process::{Command, Stdio};
    let exe = std::env::current_exe().ok()?;
    let mut child = Command::new(exe).arg("helper-unused").stdin(Stdio::piped()).stdout(Stdio::piped()).stderr(Stdio::null()).spawn().ok()?;
    child.stdin.take()?.write_all(text.as_bytes()).ok()?;
    let start = std::time::Instant::now();
    loop {
        match child.try_wait() {
            Ok(Some(_)) => break,
            Ok(None) => {
                if start.elapsed().as_secs() >= secs {
                    let _ = child.kill();
                    let _ = child.wait();
                    return None;
                }
                std::thread::sleep(std::time::Duration::from_millis(20));
            }
            Err(_) => return None,
        }
    }
    let out = child.wait_with_output().ok()?;
    let text = String::from_utf8_lossy(&out.stdout).to_string();
    let mut lines = text.lines();
    match lines.next() {
        Some("OK") => Some(Ok(lines.map(|l| l.to_string()).collect())),
        Some(l) if l.starts_with("ERR") => Some(Err(l.to_string())),
        _ => None,
    }
}

/// does the name occur in the source outside the first parameter list?
fn tokens_outside_params(src: &str, name: &str) -> bool {
    crate::gen_text::tokenize(src).iter().filter(|t| t.as_str() == name).count() >= 2
}

/// direct uses of parameters under if forms (section "direct_uses")
fn judge_direct(c: &mut Choices, st: &mut Stats) -> Verdict {
    let d = *c.choose(MODERN);
    let np = c.range(2, 4);
    let initials = ["b", "d", "e", "g", "h", "k", "m", "n", "p", "s", "t", "u", "v", "w", "y", "z"];
    let words = ["al", "eta", "ount", "otal", "ag", "ey", "um", "alue"];
    let mut params: Vec<String> = vec![];
    while params.len() < np {
        let n = format!("{}{}", initials[c.pick(initials.len())], words[c.pick(words.len())]);
        if !params.contains(&n) && !["not", "sum", "key"].contains(&n.as_str()) {
            params.push(n);
        }
    }
    // every if gets a condition of its own (a fresh constant in it): the check memoises evaluated
    // conditions, and two ifs with the same condition lose each other's uses (listed finding
    // unused-check-loses-uses-under-if); this section stays clear of that
    fn expr(c: &mut Choices, vars: &[String], depth: usize, uniq: &mut u64) -> String {
        let v = |c: &mut Choices| vars[c.pick(vars.len())].clone();
        if depth == 0 {
            return match c.pick(4) {
                0 | 1 => v(c),
                2 => format!("{}", c.range(0, 200)),
                _ => format!("(q . {})", c.range(1, 90)),
            };
        }
        match c.weighted(&[5, 4, 2, 2, 1]) {
            0 => {
                *uniq += 1;
                let k = *uniq;
                let cond = match c.pick(3) {
                    0 => format!("(> {} {k})", v(c)),
                    1 => format!("(> {} {k})", expr(c, vars, depth - 1, uniq)),
                    _ => format!("(= {} {k})", expr(c, vars, depth - 1, uniq)),
                };
                format!("(if {cond} {} {})", expr(c, vars, depth - 1, uniq), expr(c, vars, depth - 1, uniq))
            }
            1 => format!("({} {} {})", ["+", "-", "*", "logxor"][c.pick(4)], expr(c, vars, depth - 1, uniq), expr(c, vars, depth - 1, uniq)),
            2 => format!("(c {} {})", expr(c, vars, depth - 1, uniq), expr(c, vars, depth - 1, uniq)),
            3 => format!("(list {} (q . {}))", expr(c, vars, depth - 1, uniq), c.range(1, 99)),
            _ => expr(c, vars, 0, uniq),
        }
    }
    // the last parameter is sometimes left out of the body entirely (a truly unused one)
    let usable: Vec<String> = if c.chance(90) { params[..np - 1].to_vec() } else { params.clone() };
    let mut uniq: u64 = 100;
    let through_helper = c.chance(90);
    let body = if through_helper {
        let hp: Vec<String> = (0..usable.len()).map(|i| format!("H{i}")).collect();
        let hb = expr(c, &hp, 2, &mut uniq);
        format!("(defun pick ({}) {hb})\n  (pick {})", hp.join(" "), usable.join(" "))
    } else {
        expr(c, &usable, 3, &mut uniq)
    };
    let text = format!("(mod ({})\n  (include {})\n  {body}\n)\n", params.join(" "), d.sigil());
    st.label(&format!("dialect:{}", d.name()));
    let reported = match unused_report(&text) {
        Ok(r) => r,
        Err(e) => {
            st.reject(&format!("[unused check] {}", e.chars().take(80).collect::<String>()));
            return Verdict::Skip("the unused-argument check rejected the program");
        }
    };
    let code = match sut::compile_modern(&text, d.sigil(), ModernOpts::cli_default(d.stepping()), "*verif*.clsp", &[]) {
        Ok(c) => c.code,
        Err(e) => {
            st.reject(&format!("[{}] {}", d.name(), e.1.chars().take(80).collect::<String>()));
            return Verdict::Skip("rejected by the compiler");
        }
    };
    st.label("checked");
    if reported.is_empty() {
        st.label("nothing-reported");
    }
    let mut judged = 0;
    for name in reported.iter() {
        let Some(pi) = params.iter().position(|p| p == name) else { continue };
        st.label("some-parameter-reported-unused");
        for _ in 0..4 {
            let base: Vec<i64> = (0..np).map(|_| [0, 1, 2, 7, 60, 300][c.pick(6)]).collect();
            let mut other = base.clone();
            other[pi] = if base[pi] == 0 { [1, 5, 90][c.pick(3)] } else if c.chance(128) { 0 } else { base[pi] + 1 + c.range(0, 40) as i64 };
            let a = list(base.iter().map(|x| int(*x)).collect());
            let b = list(other.iter().map(|x| int(*x)).collect());
            let r1 = sut::run_consensus(&code, &a, RUN_COST);
            let r2 = sut::run_consensus(&code, &b, RUN_COST);
            judged += 1;
            let same = match (&r1, &r2) {
                (Ok(x), Ok(y)) => x == y,
                (Err(_), Err(_)) => true,
                _ => false,
            };
            if !same {
                return Verdict::Violation(Box::new(Viol::new(
                    &format!("direct-use:reported-unused-parameter-influences-result:{}", d.name()),
                    format!("same behaviour; with {name} = {}: {:?}", base[pi], r1.as_ref().map(|v| v.show())),
                    format!("with {name} = {}: {:?}", other[pi], r2.as_ref().map(|v| v.show())),
                    json!({"section": "direct_uses", "source": text, "dialect": d.name(), "parameter": name, "reported_unused": reported, "args_a_hex": hex(&a.ser()), "args_b_hex": hex(&b.ser())}),
                )));
            }
        }
    }
    if judged > 0 {
        st.nontrivial(fnv(text.as_bytes()));
        st.sample(|| json!({"section": "direct_uses", "source": text, "reported": reported}));
    }
    Verdict::Pass
}

pub fn unused_report(text: &str) -> Result<Vec<String>, String> {
    let opts: Rc<dyn CompilerOpts> = Rc::new(chialisp::compiler::compiler::DefaultCompilerOpts::new("*verif*.clsp"));
    match chialisp::classic::clvm_tools::debug::check_unused(opts, text) {
        Ok((true, _)) => Ok(vec![]),
        Ok((false, out)) => Ok(out.lines().filter_map(|l| l.strip_prefix(" - ").map(|s| s.trim().to_string())).collect()),
        Err(e) => Err(format!("{}: {}", e.0, e.1)),
    }
}

fn replace_at(p: &Pat, v: &V, name: &str, newv: &V) -> V {
    match p {
        Pat::Nil => v.clone(),
        Pat::Name(n, _) => {
            if n == name {
                newv.clone()
            } else {
                v.clone()
            }
        }
        Pat::At(n, inner) => {
            if n == name {
                newv.clone()
            } else {
                replace_at(inner, v, name, newv)
            }
        }
        Pat::Cons(a, b) => match v {
            V::P(l, r) => cons(replace_at(a, l, name, newv), replace_at(b, r, name, newv)),
            _ => v.clone(),
        },
    }
}

fn name_is_inside_at(p: &Pat, name: &str, under_at: bool) -> bool {
    // a name under an (@ W ..) capture shares its value with W: changing it alone is not
    // "differ only in that parameter"
    match p {
        Pat::Nil => false,
        Pat::Name(n, _) => n == name && under_at,
        Pat::At(n, inner) => (n == name && pat_has_names(inner)) || name_is_inside_at(inner, name, true),
        Pat::Cons(a, b) => name_is_inside_at(a, name, under_at) || name_is_inside_at(b, name, under_at),
    }
}

fn pat_has_names(p: &Pat) -> bool {
    let mut v = vec![];
    pat_names(p, &mut v);
    !v.is_empty()
}

pub fn judge(prog: &Program, d: Dialect, base_args: &[V], c: &mut Choices, st: &mut Stats) -> Result<(usize, usize), Viol> {
    let text = render_program(prog, Some(d));
    let unused = match unused_report(&text) {
        Ok(u) => u,
        Err(m) => {
            st.reject(&format!("[unused-check {}] {}", d.name(), m.chars().take(80).collect::<String>()));
            return Ok((0, 0));
        }
    };
    if unused.is_empty() {
        return Ok((0, 0));
    }
    let code = match sut::compile_modern(&text, d.sigil(), ModernOpts::cli_default(d.stepping()), "*verif*.clsp", &[]) {
        Ok(c) => c.code,
        Err(e) => {
            st.reject(&format!("[{}] {}", d.name(), e.1.chars().take(80).collect::<String>()));
            return Ok((unused.len(), 0));
        }
    };
    let mut pairs = 0;
    for name in &unused {
        if name_is_inside_at(&prog.params, name, false) {
            st.label("reported-param-shares-value-with-@-capture(skip)");
            continue;
        }
        if text.matches(name.as_str()).count() > 1 {
            st.label("reported-unused-but-mentioned-in-body");
        }
        for base in base_args {
            for _ in 0..3 {
                let alt = match c.pick(4) {
                    0 => nil(),
                    1 => int(c.range(0, 300) as i64),
                    2 => gen_tree(c, 6, &mut |c| gen_atom(c, false).0).0,
                    _ => cons(int(1), int(2)),
                };
                let a1 = base.clone();
                let a2 = replace_at(&prog.params, base, name, &alt);
                if a1 == a2 {
                    continue;
                }
                pairs += 1;
                let r1 = sut::run_consensus(&code, &a1, RUN_COST);
                let r2 = sut::run_consensus(&code, &a2, RUN_COST);
                let same = match (&r1, &r2) {
                    (Ok(x), Ok(y)) => x == y,
                    (Err(m1), Err(m2)) => !(sut::is_cost_exceeded(m1) ^ sut::is_cost_exceeded(m2)) || true,
                    (Ok(_), Err(m)) | (Err(m), Ok(_)) => sut::is_cost_exceeded(m),
                };
                if !same {
                    let kind = if r1.is_ok() && r2.is_ok() { "different-values" } else { "value-vs-failure" };
                    return Err(Viol::new(
                        &format!("reported-unused-parameter-influences-result:{kind}:{}", d.name()),
                        format!("same behaviour; with {name} = original: {}", r1.as_ref().map(|v| v.show()).unwrap_or_else(|e| format!("error {e}"))),
                        format!("with {name} = {}: {}", alt.show(), r2.as_ref().map(|v| v.show()).unwrap_or_else(|e| format!("error {e}"))),
                        json!({"source": text, "dialect": d.name(), "reported_unused": unused, "parameter": name, "args_a": a1.show(), "args_a_hex": hex(&a1.ser()),
                               "args_b": a2.show(), "args_b_hex": hex(&a2.ser()), "compiled": disasm(&code)}),
                    ));
                }
            }
        }
    }
    Ok((unused.len(), pairs))
}

impl Prop for C17Prop {
    fn id(&self) -> &'static str {
        "C17"
    }
    fn rule(&self) -> &'static str {
        "C01 generator with 0..8 lower-case mod parameters in flat, nested, dotted and @-captured parameter lists; each parameter ends up used directly, only through helpers / inline functions / lets / lambdas / macros, only under a condition, only in a raising branch, in a &rest tail, or not at all. The program text goes through exactly what --check-unused-args runs (check_unused with default options). For every parameter it reports, up to 9 pairs of argument trees that differ only at that parameter (nil, ints, trees, conses so that destructuring differs) are run on the compiled program (the sigil's default options). Oracle: both members of a pair return the same value or both fail. Non-trivial: >= 1 parameter reported and >= 1 pair executed. Second section (direct_uses): small template programs with 2..4 parameters whose names start with letters from all over the alphabet, used directly in conditions and branches of (possibly nested) if forms next to quoted constants and lists, optionally through one helper called exactly once, sometimes with a parameter left out entirely; no binding forms and no repeated calls, so none of the listed findings applies and nothing is excused there. Distinct by hash of the source."
    }
    fn sections(&self, tier: Tier) -> Vec<Section> {
        vec![Section {
            name: "random",
            kind: SectionKind::Random {
                cases: tier.pick(1_500, 3_000),
                maxlen: 5000,
            },
            exhaustive: false,
            what: "generated programs with lower-case parameters x unused-argument report x argument pairs",
        }, Section {
            name: "direct_uses",
            kind: SectionKind::Random {
                cases: tier.pick(1_200, 5_000),
                maxlen: 80,
            },
            exhaustive: false,
            what: "small programs whose parameters (initials from all over the alphabet) are used directly in conditions and branches of if forms, next to quoted constants, optionally through one helper called once: no binding forms, no repeated calls -- none of the listed findings applies here, so nothing is excused in this section",
        }]
    }
    fn run(&self, _sec: &str, input: &Input, tier: Tier, st: &mut Stats) -> Verdict {
        let Input::Bytes(bytes) = input else {
            return Verdict::Skip("index input not used");
        };
        if _sec == "direct_uses" {
            let mut c = Choices::new(bytes);
            st.label("random_case");
            return judge_direct(&mut c, st);
        }
        let case = decode_case(bytes, tier, Some(cfg(tier)));
        st.label("random_case");
        if case.collision {
            return Verdict::Skip("integer literal spells a name (generator precondition)");
        }
        let skip = bytes.len().saturating_sub(24);
        let mut c = Choices::new(&bytes[skip..]);
        let d = *c.choose(MODERN);
        st.label(&format!("dialect:{}", d.name()));
        match judge(&case.prog, d, &case.args, &mut c, st) {
            Err(v) => Verdict::Violation(Box::new(v)),
            Ok((reported, pairs)) => {
                if reported > 0 {
                    st.label("some-parameter-reported-unused");
                }
                if reported > 0 && pairs > 0 {
                    st.label("checked");
                    let text = render_program(&case.prog, None);
                    st.nontrivial(fnv(text.as_bytes()));
                    st.sample(|| json!({"source": text, "dialect": d.name(), "reported": reported, "pairs_run": pairs}));
                    Verdict::Pass
                } else if reported == 0 {
                    Verdict::Skip("no parameter reported unused")
                } else {
                    Verdict::Skip("reported, but no argument pair could be run")
                }
            }
        }
    }
    fn replay(&self, case: &Value, _st: &mut Stats) -> Option<Verdict> {
        let src = case.get("source")?.as_str()?;
        let d = Dialect::parse(case.get("dialect")?.as_str()?)?;
        let name = case.get("parameter")?.as_str()?;
        let a = sut::consensus_deserialize(&hex::decode(case.get("args_a_hex")?.as_str()?).ok()?).ok()?;
        let b = sut::consensus_deserialize(&hex::decode(case.get("args_b_hex")?.as_str()?).ok()?).ok()?;
        let unused = unused_report(src).ok()?;
        if !unused.iter().any(|u| u == name) {
            return Some(Verdict::Pass);
        }
        let code = sut::compile_modern(src, d.sigil(), ModernOpts::cli_default(d.stepping()), "*verif*.clsp", &[]).ok()?.code;
        let r1 = sut::run_consensus(&code, &a, RUN_COST);
        let r2 = sut::run_consensus(&code, &b, RUN_COST);
        let same = match (&r1, &r2) {
            (Ok(x), Ok(y)) => x == y,
            (Err(_), Err(_)) => true,
            _ => false,
        };
        Some(if same {
            Verdict::Pass
        } else {
            let kind = if r1.is_ok() && r2.is_ok() { "different-values" } else { "value-vs-failure" };
            Verdict::Violation(Box::new(Viol::new(&format!("reported-unused-parameter-influences-result:{kind}:{}", d.name()), format!("{r1:?}"), format!("{r2:?}"), case.clone())))
        })
    }
    fn known(&self, v: &Viol) -> Option<&'static str> {
        // nothing is excused in the direct-uses section: its programs have no binding forms and
        // call no function twice
        if v.case.get("section").and_then(|s| s.as_str()) == Some("direct_uses") {
            return None;
        }
        // excused only when one run returns and the other *fails*: the parameter feeds a
        // sub-expression whose value is discarded (never two different returned values)
        if v.sig.contains(":value-vs-failure:") {
            return Some("unused-check-ignores-failure-of-discarded-subexpressions");
        }
        // The check loses uses that sit under an `if` (branches compiled by com without the
        // bindings in force; conditions memoised by source location).  Excused only when spelling
        // every `if` as the strict operator `i` makes the report of this very parameter disappear.
        let src = v.case.get("source")?.as_str()?;
        let name = v.case.get("parameter")?.as_str()?;
        if src.contains("(if ") && tokens_outside_params(src, name) {
            let strict = src.replace("(if ", "(i ");
            match unused_report_bounded(&strict, 30) {
                Some(Ok(unused)) => {
                    if !unused.iter().any(|u| u == name) {
                        return Some("unused-check-loses-uses-under-if");
                    }
                }
                // the strict spelling unrolls recursion until the evaluator's depth limit
                Some(Err(e)) if e.contains("stack limit exceeded") => {
                    if crate::props::c14::has_recursive_function(src) {
                        return Some("unused-check-loses-uses-under-if");
                    }
                }
                Some(Err(_)) => {}
                // the strict spelling of a recursive function never stops unrolling: for those
                // programs the clause is replaced by "the program has a recursive function", whose
                // parameters are the bindings com does not see
                None => {
                    if crate::props::c14::has_recursive_function(src) {
                        return Some("unused-check-loses-uses-under-if");
                    }
                }
            }
        }
        None
    }
    fn sut_crash_is_violation(&self) -> bool {
        false
    }
    fn case_timeout(&self) -> (u64, bool) {
        (40, false)
    }
    fn health_floors(&self, _tier: Tier) -> Vec<(&'static str, &'static str, f64)> {
        vec![("checked", "random_case", 0.15)]
    }
}
