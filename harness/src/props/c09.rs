//! C09 — printed values re-read identically, classic and modern syntax.

use crate::choices::{fnv, Choices};
use crate::core::*;
use crate::gen_value::*;
use crate::sut;
use chialisp::classic::clvm_tools::binutils::{assemble, disassemble};
use serde_json::{json, Value};

pub struct C09Prop;
pub static C09: C09Prop = C09Prop;

const STRIDE3: u64 = 251;

fn plain_small_or_keyword(b: &[u8]) -> bool {
    // "small non-negative integer or keyword": single byte < 0x80 (covers 1..0x3e opcodes) or empty
    b.is_empty() || (b.len() == 1 && b[0] < 0x80)
}

pub fn classic_roundtrip(t: &V, version: usize) -> Result<(), Viol> {
    let mut a = clvmr::Allocator::new();
    let n = t.to_node(&mut a);
    let text = disassemble(&a, n, Some(version));
    let case = || json!({"value": t.show(), "hex": hex(&t.ser()), "opset_version": version, "printed": text.chars().take(400).collect::<String>()});
    match assemble(&mut a, &text) {
        Err(e) => Err(Viol::new("classic:assemble-rejects-disassembly", "accepted", format!("{e}"), case())),
        Ok(n2) => {
            let back = V::from_node(&a, n2);
            if &back != t {
                Err(Viol::new("classic:reassembles-to-different-value", t.show(), back.show(), case()))
            } else {
                Ok(())
            }
        }
    }
}

/// modern printer (fixed mode) read back by the modern reader and the classic assembler
pub fn modern_roundtrip_rich(rich: &chialisp::compiler::sexp::SExp, how: &str) -> Result<(), Viol> {
    sut::with_int_mode(true, || {
        let want = match sut::from_rich(std::rc::Rc::new(rich.clone()), true) {
            Ok(v) => v,
            Err(_) => return Ok(()),
        };
        let text = rich.to_string();
        let case = || json!({"value": want.show(), "hex": hex(&want.ser()), "printed": text.chars().take(400).collect::<String>(), "rich_obtained_by": how});
        match sut::parse_one(&text) {
            Err(e) => return Err(Viol::new("modern:reader-rejects-printed-text", "accepted", e, case())),
            Ok(r2) => match sut::from_rich(r2, true) {
                Err(e) => return Err(Viol::new("modern:reread-does-not-encode", "encodes", e, case())),
                Ok(back) => {
                    if back != want {
                        return Err(Viol::new("modern:reader-rereads-different-value", want.show(), back.show(), case()));
                    }
                }
            },
        }
        let mut a = clvmr::Allocator::new();
        match assemble(&mut a, &text) {
            Err(e) => Err(Viol::new("modern:assembler-rejects-printed-text", "accepted", format!("{e}"), case())),
            Ok(n2) => {
                let back = V::from_node(&a, n2);
                if back != want {
                    Err(Viol::new("modern:assembler-reads-different-value", want.show(), back.show(), case()))
                } else {
                    Ok(())
                }
            }
        }
    })
}

fn check_tree(t: &V) -> Result<(), Viol> {
    for v in 0..=2 {
        classic_roundtrip(t, v)?;
    }
    let rich = sut::to_rich(t, true).map_err(|e| Viol::new("convert_from:error", "Ok", e, json!({"value": t.show()})))?;
    modern_roundtrip_rich(&rich, "convert_from_clvm_rs (fixed mode)")
}

fn positions(a: &V) -> Vec<V> {
    vec![
        a.clone(),
        list(vec![a.clone()]),
        list(vec![a.clone(), int(2), a.clone()]),
        list(vec![int(1), a.clone()]),
        cons(int(1), a.clone()),
        cons(a.clone(), a.clone()),
        list(vec![list(vec![a.clone(), a.clone()]), a.clone()]),
    ]
}

impl Prop for C09Prop {
    fn id(&self) -> &'static str {
        "C09"
    }
    fn rule(&self) -> &'static str {
        "Every atom of length 0..2 (length 3: stride-sampled quick, complete thorough) placed bare, as list head, in list tail, as improper tail, as both members of a pair and as head of a nested list; proptest-generated G1 trees over the text-hostile atom classes. Oracle: for operator-set versions 0,1,2 assemble(disassemble(t,v)) succeeds and equals t; in fixed integer mode the modern printer's text for convert_from_clvm_rs(t) is read back to t by parse_sexp+convert_to_clvm_rs and by the classic assembler; the statement's last sentence (text printed by the command-line compiler denotes the bytes the library emits) is checked on generated programs by C11's 'run -O (printed text re-assembled)' entry point. Non-trivial: the tree contains an atom that is neither empty nor a single byte < 0x80. Distinct by hash of the serialized tree."
    }
    fn sections(&self, tier: Tier) -> Vec<Section> {
        vec![
            Section {
                name: "atoms_le2",
                kind: SectionKind::Enum { count: ATOMS_LEN_LE2 },
                exhaustive: true,
                what: "every byte string of length 0..2 in 7 positions x opset versions 0,1,2 (classic) and the modern printer",
            },
            match tier {
                Tier::Quick => Section {
                    name: "atoms_len3_stride",
                    kind: SectionKind::Enum { count: (1u64 << 24) / STRIDE3 },
                    exhaustive: false,
                    what: "every 251st byte string of length 3 (offset by the seed) in 7 positions",
                },
                Tier::Thorough => Section {
                    name: "atoms_len3",
                    kind: SectionKind::Enum { count: 1u64 << 24 },
                    exhaustive: true,
                    what: "every byte string of length 3 in 7 positions",
                },
            },
            Section {
                name: "trees",
                kind: SectionKind::Random {
                    cases: tier.pick(100_000, 1_000_000),
                    maxlen: 500,
                },
                exhaustive: false,
                what: "G1 trees with text-hostile atoms in head and non-head positions, proper and improper lists",
            },
        ]
    }

    fn run(&self, sec: &str, input: &Input, _tier: Tier, st: &mut Stats) -> Verdict {
        match (sec, input) {
            ("atoms_le2", Input::Index(i)) | ("atoms_len3", Input::Index(i)) | ("atoms_len3_stride", Input::Index(i)) => {
                let idx = match sec {
                    "atoms_le2" => *i,
                    "atoms_len3" => ATOMS_LEN_LE2 + *i,
                    _ => {
                        let off = SEED.load(std::sync::atomic::Ordering::Relaxed) % STRIDE3;
                        ATOMS_LEN_LE2 + (*i * STRIDE3 + off) % (1 << 24)
                    }
                };
                let b = atom_by_index(idx);
                let a = V::A(b.clone());
                for t in positions(&a) {
                    if let Err(v) = check_tree(&t) {
                        return Verdict::Violation(Box::new(v));
                    }
                }
                if !plain_small_or_keyword(&b) {
                    st.nontrivial(idx);
                    st.sample(|| {
                        let mut al = clvmr::Allocator::new();
                        let t = list(vec![a.clone(), int(2), a.clone()]);
                        let n = t.to_node(&mut al);
                        json!({"section": sec, "atom": hex(&b), "example_position": t.show(), "disassembled_v2": disassemble(&al, n, Some(2))})
                    });
                }
                Verdict::Pass
            }
            ("trees", Input::Bytes(bytes)) => {
                let mut c = Choices::new(bytes);
                let mut classes = vec![];
                let (t, shape) = gen_tree(&mut c, 40, &mut |c| {
                    let (b, cl) = gen_atom(c, false);
                    classes.push(cl);
                    b
                });
                st.label(shape);
                for cl in &classes {
                    st.label(cl);
                }
                if let Err(v) = check_tree(&t) {
                    return Verdict::Violation(Box::new(v));
                }
                let mut atoms = vec![];
                t.atoms(&mut atoms);
                if atoms.iter().any(|a| !plain_small_or_keyword(a)) {
                    st.nontrivial(fnv(&t.ser()));
                    st.sample(|| {
                        let mut al = clvmr::Allocator::new();
                        let n = t.to_node(&mut al);
                        json!({"section": "trees", "value": t.show(), "disassembled_v2": disassemble(&al, n, Some(2)).chars().take(300).collect::<String>()})
                    });
                }
                Verdict::Pass
            }
            _ => Verdict::Skip("unknown section"),
        }
    }

    fn replay(&self, case: &Value, _st: &mut Stats) -> Option<Verdict> {
        let h = case.get("hex")?.as_str()?;
        let b = hex::decode(h).ok()?;
        let t = sut::consensus_deserialize(&b).ok()?;
        Some(match check_tree(&t) {
            Err(v) => Verdict::Violation(Box::new(v)),
            Ok(()) => Verdict::Pass,
        })
    }

    fn known(&self, _v: &Viol) -> Option<&'static str> {
        None
    }
}
