//! C08 — binary (de)serialisation is lossless, canonical, and rejects malformed input.

use crate::choices::{fnv, Choices};
use crate::core::*;
use crate::gen_value::*;
use crate::sut;
use serde_json::{json, Value};
use std::collections::HashMap;

pub struct C08Prop;
pub static C08: C08Prop = C08Prop;

const EDGE_LENS_QUICK: &[usize] = &[
    0, 1, 2, 0x3e, 0x3f, 0x40, 0x41, 0xff, 0x100, 0x1ffe, 0x1fff, 0x2000, 0x2001, 0xffff, 0x10000, 0xfffff, 0x100000,
    0x100001, 0x1000000, 0x1020304,
];
const EDGE_LENS_THOROUGH: &[usize] = &[0x7ffffff, 0x8000000, 0x8000001];
const FILLS: &[(u8, u8)] = &[(0x00, 0x00), (0x7f, 0x41), (0x80, 0x00), (0xff, 0xff), (0x01, 0x20)];

fn edge_lens(tier: Tier) -> Vec<usize> {
    let mut v = EDGE_LENS_QUICK.to_vec();
    if tier == Tier::Thorough {
        v.extend_from_slice(EDGE_LENS_THOROUGH);
    }
    v
}

fn short(b: &[u8]) -> String {
    if b.len() > 64 {
        format!("{}..[{} bytes]", hex(&b[..24]), b.len())
    } else {
        hex(b)
    }
}

/// clauses (1) and (2) for a value
fn check_encode(t: &V) -> Result<(), Viol> {
    let case = || json!({"value": t.show(), "hex": if t.nodes() < 2000 { short(&t.ser()) } else { "..".into() }});
    let mine = t.ser();
    let cons = sut::consensus_serialize(t);
    if mine != cons {
        return Err(Viol::new("harness-serializer-vs-consensus", short(&cons), short(&mine), case()));
    }
    let classic = sut::classic_serialize(t);
    if classic != cons {
        return Err(Viol::new("encode:bytes-differ-from-consensus", short(&cons), short(&classic), case()));
    }
    match sut::classic_deserialize(&classic) {
        Ok(back) => {
            if &back != t {
                return Err(Viol::new("roundtrip:different-value", t.show(), back.show(), case()));
            }
        }
        Err(e) => return Err(Viol::new("roundtrip:decode-error", t.show(), e, case())),
    }
    // the debugger's hex path
    let hx = hex(&classic);
    let mut a = clvmr::Allocator::new();
    let r = chialisp::compiler::cldb::hex_to_modern_sexp(&mut a, &HashMap::new(), sut::loc(), &hx);
    match r {
        Ok(rich) => match sut::from_rich(rich, true) {
            Ok(back) => {
                if &back != t {
                    return Err(Viol::new("hexpath:different-value", t.show(), back.show(), case()));
                }
            }
            Err(e) => return Err(Viol::new("hexpath:convert-error", t.show(), e, case())),
        },
        Err(e) => return Err(Viol::new("hexpath:decode-error", t.show(), format!("{e:?}"), case())),
    }
    Ok(())
}

/// clause (3) for a byte string
fn check_decode(b: &[u8]) -> Result<bool, Viol> {
    let case = || json!({"input_hex": short(b), "input_len": b.len(), "full_hex": if b.len() <= 4096 { hex(b) } else { String::new() }});
    let classic = sut::classic_deserialize(b);
    let cons = sut::consensus_deserialize(b);
    let accepted = classic.is_ok();
    if let Ok(v) = &classic {
        match &cons {
            Ok(w) => {
                if v != w {
                    return Err(Viol::new("decode:different-value", w.show(), v.show(), case()));
                }
            }
            Err(e) => {
                return Err(Viol::new(
                    "decode:accepts-what-consensus-rejects",
                    format!("error (consensus: {e})"),
                    format!("Ok {}", v.show()),
                    case(),
                ))
            }
        }
    }
    // same through the hex path
    let hx = hex(b);
    let mut a = clvmr::Allocator::new();
    if let Ok(rich) = chialisp::compiler::cldb::hex_to_modern_sexp(&mut a, &HashMap::new(), sut::loc(), &hx) {
        if let Ok(v) = sut::from_rich(rich, true) {
            match &cons {
                Ok(w) if *w == v => {}
                Ok(w) => return Err(Viol::new("hexpath-decode:different-value", w.show(), v.show(), case())),
                Err(e) => {
                    return Err(Viol::new(
                        "hexpath-decode:accepts-what-consensus-rejects",
                        format!("error (consensus: {e})"),
                        format!("Ok {}", v.show()),
                        case(),
                    ))
                }
            }
        }
    }
    Ok(accepted)
}

fn place(a: V, pos: usize) -> V {
    match pos {
        0 => a,
        1 => cons(a, int(5)),
        _ => cons(int(5), a),
    }
}

fn is_complete_valid(b: &[u8]) -> bool {
    match sut::consensus_deserialize(b) {
        Ok(v) => v.ser() == b,
        Err(_) => false,
    }
}

fn mutate(c: &mut Choices, enc: &[u8]) -> (Vec<u8>, &'static str) {
    let mut v = enc.to_vec();
    match c.pick(10) {
        0 => {
            let at = c.pick(v.len() + 1);
            v.truncate(at);
            (v, "mut:truncate")
        }
        1 => {
            // flip a bit in one of the first bytes (prefix area)
            if !v.is_empty() {
                let i = c.pick(v.len().min(6));
                v[i] ^= 1 << c.pick(8);
            }
            (v, "mut:flip-prefix-bit")
        }
        2 => {
            // length field +-1 on the first size-prefixed atom
            if let Some(i) = v.iter().position(|x| *x >= 0x81 && *x < 0xc0) {
                if c.chance(128) {
                    v[i] = v[i].wrapping_add(1);
                } else {
                    v[i] = v[i].wrapping_sub(1);
                }
            }
            (v, "mut:length+-1")
        }
        3 => {
            // non-minimal length form: re-encode first short atom with a 2..5 byte prefix
            if let Some(i) = v.iter().position(|x| *x >= 0x80 && *x < 0xc0) {
                let n = (v[i] & 0x3f) as usize;
                let k = c.range(2, 7);
                let mut pre = match k {
                    2 => vec![0xc0, n as u8],
                    3 => vec![0xe0, 0, n as u8],
                    4 => vec![0xf0, 0, 0, n as u8],
                    5 => vec![0xf8, 0, 0, 0, n as u8],
                    6 => vec![0xfc, 0, 0, 0, 0, n as u8],
                    _ => vec![0xfe, 0, 0, 0, 0, 0, n as u8],
                };
                let tail = v.split_off(i + 1);
                v.truncate(i);
                v.append(&mut pre);
                v.extend(tail);
            }
            (v, "mut:non-minimal-length")
        }
        4 => {
            let p = *c.choose(&[0xfcu8, 0xfd, 0xfe, 0xf8, 0xfb, 0xf7]);
            let at = c.pick(v.len() + 1);
            v.insert(at, p);
            (v, "mut:big-prefix-inserted")
        }
        5 => {
            let n = c.range(1, 8);
            v.extend(c.bytes(n));
            (v, "mut:trailing-garbage")
        }
        6 => {
            let at = c.pick(v.len() + 1);
            v.insert(at, 0xff);
            (v, "mut:extra-cons")
        }
        7 => {
            if !v.is_empty() {
                let at = c.pick(v.len());
                v.remove(at);
            }
            (v, "mut:delete-byte")
        }
        8 => {
            let n = c.range(0, 24);
            (c.bytes(n), "mut:random-bytes")
        }
        _ => {
            // big declared size with little data
            let p = c.range(0, 5);
            let mut w = match p {
                0 => vec![0xbf],
                1 => vec![0xdf, 0xff],
                2 => vec![0xef, 0xff, 0xff],
                3 => vec![0xf7, c.u8(), c.u8(), c.u8()],
                4 => vec![0xf8 | (c.u8() & 3), c.u8(), c.u8(), c.u8(), c.u8()],
                _ => vec![0xfc | (c.u8() & 3), c.u8(), c.u8(), c.u8(), c.u8(), c.u8()],
            };
            let n = c.range(0, 12);
            w.extend(c.bytes(n));
            if c.chance(128) {
                let mut x = vec![0xff];
                x.append(&mut w);
                x.push(0x80);
                w = x;
            }
            (w, "mut:oversized-declared-length")
        }
    }
}

impl Prop for C08Prop {
    fn id(&self) -> &'static str {
        "C08"
    }
    fn rule(&self) -> &'static str {
        "Encode side: G1 trees (all atom classes and shapes) and atoms at every length-class edge (0, 1, 0x3f/0x40, 0x1fff/0x2000, 0xfffff/0x100000, 16 MiB; thorough also 2^27-1..2^27+1) with several fill patterns, alone and inside pairs: sexp_to_stream bytes == clvmr node_to_bytes == harness serializer, sexp_from_stream and hex_to_modern_sexp give the value back. Decode side: every byte string of length <= 3 (exhaustive), and proptest-generated mutations of valid encodings (truncation at any offset, flipped prefix bits, length +-1, non-minimal length forms, 0xf8..0xfe prefixes, trailing garbage, extra/missing bytes, random bytes, oversized declared lengths): sexp_from_stream(b) (and the hex path) is an error, or equals clvmr node_from_bytes(b). Non-trivial: (encode) the value has an atom of length >= 0x40; (decode) the input is not a valid complete canonical encoding. Distinct by hash of the bytes."
    }
    fn assumptions(&self) -> Vec<&'static str> {
        vec!["clvmr::serde::{node_to_bytes,node_from_bytes} are the consensus (de)serialisers"]
    }
    fn sections(&self, tier: Tier) -> Vec<Section> {
        vec![
            Section {
                name: "enc_edges",
                kind: SectionKind::Enum {
                    count: (edge_lens(tier).len() * FILLS.len() * 3) as u64,
                },
                exhaustive: false,
                what: "atoms at the length-class edges x fill patterns x {alone, left of pair, right of pair}",
            },
            Section {
                name: "dec_le3",
                kind: SectionKind::Enum { count: ATOMS_LEN_LE3 },
                exhaustive: true,
                what: "every byte string of length 0..3 as decoder input (sexp_from_stream and hex path vs clvmr)",
            },
            Section {
                name: "enc_trees",
                kind: SectionKind::Random {
                    cases: tier.pick(30_000, 600_000),
                    maxlen: 600,
                },
                exhaustive: false,
                what: "G1 trees: bytes identical to consensus and round-trip",
            },
            Section {
                name: "dec_mut",
                kind: SectionKind::Random {
                    cases: tier.pick(200_000, 4_000_000),
                    maxlen: 300,
                },
                exhaustive: false,
                what: "mutated valid encodings and random bytes as decoder input",
            },
        ]
    }

    fn run(&self, sec: &str, input: &Input, tier: Tier, st: &mut Stats) -> Verdict {
        match (sec, input) {
            ("enc_edges", Input::Index(i)) => {
                let lens = edge_lens(tier);
                let i = *i as usize;
                let len = lens[i / (FILLS.len() * 3)];
                let (first, fill) = FILLS[(i / 3) % FILLS.len()];
                let pos = i % 3;
                let mut b = vec![fill; len];
                if len > 0 {
                    b[0] = first;
                }
                let a = V::A(b);
                let t = place(a, pos);
                if let Err(mut v) = check_encode(&t) {
                    v.case = json!({"atom_len": len, "first_byte": first, "fill": fill, "position": pos, "value": t.show()});
                    return Verdict::Violation(Box::new(v));
                }
                st.label(&format!("edge_len=0x{len:x}"));
                if len >= 0x40 {
                    st.nontrivial(i as u64);
                    st.sample(|| json!({"section": "enc_edges", "atom_len": len, "first_byte": first, "fill": fill, "position": pos}));
                }
                Verdict::Pass
            }
            ("dec_le3", Input::Index(i)) => {
                let b = atom_by_index(*i);
                match check_decode(&b) {
                    Err(v) => Verdict::Violation(Box::new(v)),
                    Ok(acc) => {
                        st.label(if acc { "decoder_accepts" } else { "decoder_rejects" });
                        if !is_complete_valid(&b) {
                            st.nontrivial(*i);
                            st.sample(|| json!({"section": "dec_le3", "input_hex": hex(&b), "classic_accepts": acc}));
                        }
                        Verdict::Pass
                    }
                }
            }
            ("enc_trees", Input::Bytes(bytes)) => {
                let mut c = Choices::new(bytes);
                let mut maxlen = 0usize;
                let (t, shape) = gen_tree(&mut c, 80, &mut |c| {
                    let (b, _) = gen_atom(c, true);
                    maxlen = maxlen.max(b.len());
                    b
                });
                st.label(shape);
                if let Err(v) = check_encode(&t) {
                    return Verdict::Violation(Box::new(v));
                }
                if maxlen >= 0x40 {
                    st.label("has_atom>=0x40");
                    st.nontrivial(fnv(&t.ser()));
                    st.sample(|| json!({"section": "enc_trees", "value": t.show()}));
                }
                Verdict::Pass
            }
            ("dec_mut", Input::Bytes(bytes)) => {
                let mut c = Choices::new(bytes);
                let (t, _) = gen_tree(&mut c, 12, &mut |c| gen_atom(c, false).0);
                let enc = t.ser();
                let (b, kind) = mutate(&mut c, &enc);
                st.label(kind);
                match check_decode(&b) {
                    Err(v) => Verdict::Violation(Box::new(v)),
                    Ok(acc) => {
                        st.label(if acc { "decoder_accepts" } else { "decoder_rejects" });
                        if !is_complete_valid(&b) {
                            st.nontrivial(fnv(&b));
                            st.sample(|| json!({"section": "dec_mut", "mutation": kind, "input_hex": short(&b), "classic_accepts": acc}));
                        }
                        Verdict::Pass
                    }
                }
            }
            _ => Verdict::Skip("unknown section"),
        }
    }

    fn replay(&self, case: &Value, _st: &mut Stats) -> Option<Verdict> {
        if let Some(h) = case.get("full_hex").and_then(|h| h.as_str()) {
            if !h.is_empty() || case.get("input_len").and_then(|n| n.as_u64()) == Some(0) {
                let b = hex::decode(h).ok()?;
                return Some(match check_decode(&b) {
                    Err(v) => Verdict::Violation(Box::new(v)),
                    Ok(_) => Verdict::Pass,
                });
            }
        }
        if let Some(len) = case.get("atom_len").and_then(|n| n.as_u64()) {
            let first = case.get("first_byte").and_then(|n| n.as_u64()).unwrap_or(0) as u8;
            let fill = case.get("fill").and_then(|n| n.as_u64()).unwrap_or(0) as u8;
            let mut b = vec![fill; len as usize];
            if len > 0 {
                b[0] = first;
            }
            let pos = case.get("position").and_then(|n| n.as_u64()).unwrap_or(0) as usize;
            return Some(match check_encode(&place(V::A(b), pos)) {
                Err(v) => Verdict::Violation(Box::new(v)),
                Ok(_) => Verdict::Pass,
            });
        }
        None
    }

    fn known(&self, _v: &Viol) -> Option<&'static str> {
        None
    }
}
