//! C16 — the REPL / partial evaluator only ever returns what the compiled program would.

use crate::choices::{fnv, Choices};
use crate::core::*;
use crate::gen_lisp::*;
use crate::gen_value::*;
use crate::props::c01::{disasm, literal_name_collision, RUN_COST};
use crate::sut::{self, ModernOpts};
use chialisp::classic::clvm_tools::stages::stage_0::{DefaultProgramRunner, TRunProgram};
use chialisp::compiler::comptypes::{BodyForm, CompilerOpts};
use chialisp::compiler::repl::Repl;
use serde_json::{json, Value};
use std::rc::Rc;

pub struct C16Prop;
pub static C16: C16Prop = C16Prop;

pub struct Session {
    pub helpers: Vec<Helper>,
    pub closed: Expr,
    pub open: Expr,
    pub feats: Vec<&'static str>,
    pub args: Vec<V>,
    pub collision: bool,
}

fn xyz() -> Vec<(String, Ty)> {
    vec![("x".to_string(), Ty::Int), ("y".to_string(), Ty::Int), ("z".to_string(), Ty::List(Box::new(Ty::Int)))]
}

fn xyz_pat() -> Pat {
    list_pat(xyz().into_iter().map(|(n, t)| Pat::Name(n, t)).collect(), Pat::Nil)
}

pub fn decode(bytes: &[u8], tier: Tier) -> Session {
    let mut c = Choices::new(bytes);
    let mut cfg = GenCfg::modern(tier == Tier::Quick);
    cfg.no_defconst = true;
    cfg.allow_modexpr = false;
    cfg.max_params = 6;
    let (helpers, closed, open, feats, names) = {
        let mut g = Gen::new(&mut c, cfg);
        for n in ["x", "y", "z"] {
            g.all_names.insert(n.as_bytes().to_vec());
        }
        let nh = g.c.range(0, 4);
        let helpers: Vec<Helper> = (0..nh).map(|_| g.gen_helper()).collect();
        let tys = [Ty::Int, Ty::Atom, Ty::Any, Ty::List(Box::new(Ty::Int))];
        let t1 = tys[g.c.pick(4)].clone();
        let d1 = g.c.range(1, 4);
        let closed = g.gen_expr(&t1, &vec![], d1);
        let t2 = tys[g.c.pick(4)].clone();
        let d2 = g.c.range(1, 4);
        let open = g.gen_expr(&t2, &xyz(), d2);
        (helpers, closed, open, g.feats.iter().copied().collect::<Vec<_>>(), g.all_names.clone())
    };
    let pat = xyz_pat();
    let args = (0..4).map(|_| gen_args_for(&mut c, &pat)).collect();
    let p = Program {
        params: pat,
        helpers: helpers.clone(),
        body: Expr::List(vec![closed.clone(), open.clone()]),
    };
    let collision = literal_name_collision(&p, &names);
    Session {
        helpers,
        closed,
        open,
        feats,
        args,
        collision,
    }
}

fn new_repl() -> Repl {
    let opts: Rc<dyn CompilerOpts> = Rc::new(chialisp::compiler::compiler::DefaultCompilerOpts::new("*repl*"));
    let runner: Rc<dyn TRunProgram> = Rc::new(DefaultProgramRunner::new());
    Repl::new(opts, runner)
}

fn compile21(params: &Pat, helpers: &[String], body_text: &str) -> Result<V, String> {
    let mut s = format!("(mod {} (include *standard-cl-21*)", render_pat(params));
    for h in helpers {
        s.push_str("\n  ");
        s.push_str(h);
    }
    s.push_str("\n  ");
    s.push_str(body_text);
    s.push_str("\n)");
    sut::compile_modern(&s, Dialect::Cl21.sigil(), ModernOpts::cli_default(21), "*verif*.clsp", &[]).map(|c| c.code).map_err(|e| e.1)
}

/// A token tree over `gen_text::tokenize` (dots and the `&` / `@` markers stay ordinary atoms).
#[derive(Clone, Debug, PartialEq)]
enum TT {
    A(String),
    L(Vec<TT>),
}

fn tt_parse(text: &str) -> Option<TT> {
    fn rd(toks: &[String], pos: &mut usize) -> Option<TT> {
        let t = toks.get(*pos)?;
        *pos += 1;
        if t == "(" {
            let mut v = vec![];
            loop {
                if toks.get(*pos)? == ")" {
                    *pos += 1;
                    return Some(TT::L(v));
                }
                v.push(rd(toks, pos)?);
            }
        }
        if t == ")" {
            return None;
        }
        Some(TT::A(t.clone()))
    }
    let toks = crate::gen_text::tokenize(text);
    let mut pos = 0;
    let r = rd(&toks, &mut pos)?;
    if pos == toks.len() {
        Some(r)
    } else {
        None
    }
}

fn tt_render(t: &TT) -> String {
    match t {
        TT::A(a) => a.clone(),
        TT::L(v) => format!("({})", v.iter().map(tt_render).collect::<Vec<_>>().join(" ")),
    }
}

fn tt_head(t: &TT) -> Option<&str> {
    match t {
        TT::L(v) => match v.first() {
            Some(TT::A(h)) => Some(h.as_str()),
            _ => None,
        },
        _ => None,
    }
}

fn tt_names(t: &TT, out: &mut std::collections::BTreeSet<String>) {
    match t {
        TT::A(a) => {
            if a != "." && a != "@" && a != "&" && a != "&rest" && !a.starts_with('"') && !a.chars().next().map(|c| c.is_ascii_digit() || c == '-').unwrap_or(true) {
                out.insert(a.clone());
            }
        }
        TT::L(v) => v.iter().for_each(|x| tt_names(x, out)),
    }
}

type NameSet = std::collections::BTreeSet<String>;

/// `t` with every free occurrence of a name of `s` replaced by the quoted atom spelling a renamed
/// form of it -- what the evaluator's com makes of a let/assign-bound name
fn tt_subst(t: &TT, s: &NameSet) -> TT {
    if s.is_empty() {
        return t.clone();
    }
    match t {
        // (a free variable of the REPL keeps its own spelling; a bound name has been renamed)
        TT::A(a) if s.contains(a) => TT::L(vec![TT::A("q".into()), TT::A(".".into()), TT::A(if matches!(a.as_str(), "x" | "y" | "z") { a.clone() } else { format!("\"{a}_$_1\"") })]),
        TT::A(_) => t.clone(),
        TT::L(v) => {
            let minus = |names: &NameSet| -> NameSet { s.difference(names).cloned().collect() };
            match tt_head(t) {
                Some("q") | Some("quote") => t.clone(),
                Some("let") if v.len() >= 3 => {
                    let mut names = NameSet::new();
                    let binds = match &v[1] {
                        TT::L(bs) => TT::L(
                            bs.iter()
                                .map(|b| match b {
                                    TT::L(nv) if nv.len() == 2 => {
                                        tt_names(&nv[0], &mut names);
                                        TT::L(vec![nv[0].clone(), tt_subst(&nv[1], s)])
                                    }
                                    o => o.clone(),
                                })
                                .collect(),
                        ),
                        o => o.clone(),
                    };
                    let inner = minus(&names);
                    let mut out = vec![v[0].clone(), binds];
                    out.extend(v[2..].iter().map(|b| tt_subst(b, &inner)));
                    TT::L(out)
                }
                Some("let*") if v.len() >= 3 => {
                    let mut cur = s.clone();
                    let binds = match &v[1] {
                        TT::L(bs) => TT::L(
                            bs.iter()
                                .map(|b| match b {
                                    TT::L(nv) if nv.len() == 2 => {
                                        let val = tt_subst(&nv[1], &cur);
                                        let mut names = NameSet::new();
                                        tt_names(&nv[0], &mut names);
                                        cur = cur.difference(&names).cloned().collect();
                                        TT::L(vec![nv[0].clone(), val])
                                    }
                                    o => o.clone(),
                                })
                                .collect(),
                        ),
                        o => o.clone(),
                    };
                    let mut out = vec![v[0].clone(), binds];
                    out.extend(v[2..].iter().map(|b| tt_subst(b, &cur)));
                    TT::L(out)
                }
                Some("assign") | Some("assign-lambda") | Some("assign-inline") if v.len() >= 2 => {
                    let mut names = NameSet::new();
                    let n = v.len();
                    let mut i = 1;
                    while i + 1 < n {
                        tt_names(&v[i], &mut names);
                        i += 2;
                    }
                    let inner = minus(&names);
                    let mut out = vec![v[0].clone()];
                    let mut i = 1;
                    while i + 1 < n {
                        out.push(v[i].clone());
                        out.push(tt_subst(&v[i + 1], &inner));
                        i += 2;
                    }
                    out.push(tt_subst(&v[n - 1], &inner));
                    TT::L(out)
                }
                Some("lambda") if v.len() >= 3 => {
                    // captured names of s stop being captured: their value at the capture site is
                    // the constant anyway
                    let mut params = NameSet::new();
                    let plist = match &v[1] {
                        TT::L(ps) => {
                            let mut out = vec![];
                            for (i, p) in ps.iter().enumerate() {
                                if i == 0 && tt_head(p) == Some("&") {
                                    if let TT::L(caps) = p {
                                        let kept: Vec<TT> = caps.iter().filter(|c| !matches!(c, TT::A(a) if s.contains(a))).cloned().collect();
                                        for c in kept.iter().skip(1) {
                                            tt_names(c, &mut params);
                                        }
                                        if kept.len() > 1 {
                                            out.push(TT::L(kept));
                                        }
                                    }
                                } else {
                                    tt_names(p, &mut params);
                                    out.push(p.clone());
                                }
                            }
                            TT::L(out)
                        }
                        o => {
                            tt_names(o, &mut params);
                            o.clone()
                        }
                    };
                    let inner = minus(&params);
                    let mut out = vec![v[0].clone(), plist];
                    out.extend(v[2..].iter().map(|b| tt_subst(b, &inner)));
                    TT::L(out)
                }
                _ => TT::L(v.iter().enumerate().map(|(i, x)| if i == 0 && matches!(x, TT::A(_)) { x.clone() } else { tt_subst(x, s) }).collect()),
            }
        }
    }
}

/// The expression as the evaluator's com sees it: inside the branches of every `if`, the names
/// bound by an enclosing let / let* / assign (not function or lambda parameters) are the quoted
/// atoms of their renamed spellings.
fn tt_com_view(t: &TT, bound: &NameSet) -> TT {
    match t {
        TT::A(_) => t.clone(),
        TT::L(v) => {
            let plus = |names: &NameSet| -> NameSet { bound.union(names).cloned().collect() };
            match tt_head(t) {
                Some("q") | Some("quote") => t.clone(),
                Some("if") if v.len() == 4 => {
                    let none = NameSet::new();
                    TT::L(vec![
                        v[0].clone(),
                        tt_com_view(&v[1], bound),
                        tt_com_view(&tt_subst(&v[2], bound), &none),
                        tt_com_view(&tt_subst(&v[3], bound), &none),
                    ])
                }
                Some("let") if v.len() >= 3 => {
                    let mut names = NameSet::new();
                    let binds = match &v[1] {
                        TT::L(bs) => TT::L(
                            bs.iter()
                                .map(|b| match b {
                                    TT::L(nv) if nv.len() == 2 => {
                                        tt_names(&nv[0], &mut names);
                                        TT::L(vec![nv[0].clone(), tt_com_view(&nv[1], bound)])
                                    }
                                    o => o.clone(),
                                })
                                .collect(),
                        ),
                        o => o.clone(),
                    };
                    let inner = plus(&names);
                    let mut out = vec![v[0].clone(), binds];
                    out.extend(v[2..].iter().map(|b| tt_com_view(b, &inner)));
                    TT::L(out)
                }
                Some("let*") if v.len() >= 3 => {
                    let mut cur = bound.clone();
                    let binds = match &v[1] {
                        TT::L(bs) => TT::L(
                            bs.iter()
                                .map(|b| match b {
                                    TT::L(nv) if nv.len() == 2 => {
                                        let val = tt_com_view(&nv[1], &cur);
                                        tt_names(&nv[0], &mut cur);
                                        TT::L(vec![nv[0].clone(), val])
                                    }
                                    o => o.clone(),
                                })
                                .collect(),
                        ),
                        o => o.clone(),
                    };
                    let mut out = vec![v[0].clone(), binds];
                    out.extend(v[2..].iter().map(|b| tt_com_view(b, &cur)));
                    TT::L(out)
                }
                Some("assign") | Some("assign-lambda") | Some("assign-inline") if v.len() >= 2 => {
                    let mut names = NameSet::new();
                    let n = v.len();
                    let mut i = 1;
                    while i + 1 < n {
                        tt_names(&v[i], &mut names);
                        i += 2;
                    }
                    let inner = plus(&names);
                    let mut out = vec![v[0].clone()];
                    let mut i = 1;
                    while i + 1 < n {
                        out.push(v[i].clone());
                        out.push(tt_com_view(&v[i + 1], &inner));
                        i += 2;
                    }
                    out.push(tt_com_view(&v[n - 1], &inner));
                    TT::L(out)
                }
                Some("lambda") if v.len() >= 3 => {
                    // parameters and captures are arguments of the desugared function: com sees them
                    let mut params = NameSet::new();
                    tt_names(&v[1], &mut params);
                    let inner: NameSet = bound.difference(&params).cloned().collect();
                    let mut out = vec![v[0].clone(), v[1].clone()];
                    out.extend(v[2..].iter().map(|b| tt_com_view(b, &inner)));
                    TT::L(out)
                }
                _ => TT::L(v.iter().map(|x| tt_com_view(x, bound)).collect()),
            }
        }
    }
}

/// the same with the REPL's free variables x y z counted among the names com does not see
pub fn com_view_free(e: &str) -> Option<String> {
    let t = tt_parse(e)?;
    let free: NameSet = ["x", "y", "z"].iter().map(|s| s.to_string()).collect();
    let t2 = tt_com_view(&t, &free);
    if t2 == t {
        None
    } else {
        Some(tt_render(&t2))
    }
}

/// the expression rewritten to what com makes of it (None when nothing changes)
pub fn com_view(e: &str) -> Option<String> {
    let t = tt_parse(e)?;
    let t2 = tt_com_view(&t, &NameSet::new());
    if t2 == t {
        None
    } else {
        Some(tt_render(&t2))
    }
}

/// the free variables x y z (whole tokens) replaced by the quoted atoms that spell them
pub fn quote_free(e: &str) -> String {
    crate::gen_text::tokenize(e)
        .iter()
        .map(|t| match t.as_str() {
            "x" => "(q . x)".to_string(),
            "y" => "(q . y)".to_string(),
            "z" => "(q . z)".to_string(),
            o => o.to_string(),
        })
        .collect::<Vec<_>>()
        .join(" ")
}

/// rename the free variables x y z (whole tokens) to longer names
pub fn rename_free(e: &str) -> String {
    let mut out = String::new();
    let mut tok = String::new();
    let flush = |tok: &mut String, out: &mut String| {
        let t = tok.as_str();
        let numbered = |p: char| t.len() >= 2 && t.starts_with(p) && t[1..].chars().all(|c| c.is_ascii_digit());
        match t {
            "x" => out.push_str("xfree"),
            "y" => out.push_str("yfree"),
            "z" => out.push_str("zfree"),
            _ if numbered('L') || numbered('V') || numbered('X') => {
                out.push_str(&t[..1]);
                out.push('Q');
                out.push_str(&t[1..]);
            }
            _ => out.push_str(t),
        }
        tok.clear();
    };
    let mut in_str = false;
    for ch in e.chars() {
        if in_str {
            out.push(ch);
            if ch == '"' {
                in_str = false;
            }
            continue;
        }
        if ch == '"' {
            flush(&mut tok, &mut out);
            in_str = true;
            out.push(ch);
        } else if ch.is_whitespace() || ch == '(' || ch == ')' {
            flush(&mut tok, &mut out);
            out.push(ch);
        } else {
            tok.push(ch);
        }
    }
    flush(&mut tok, &mut out);
    out
}

pub enum Res {
    Constant(V),
    Residual(String),
    Error(String),
    Nothing,
}

pub fn repl_eval(repl: &mut Repl, line: &str) -> Res {
    let mut a = clvmr::Allocator::new();
    match repl.process_line(&mut a, line.to_string()) {
        Err(e) => Res::Error(e.1),
        Ok(None) => Res::Nothing,
        Ok(Some(bf)) => match &*bf {
            BodyForm::Quoted(q) => match sut::from_rich(Rc::new(q.clone()), true) {
                Ok(v) => Res::Constant(v),
                Err(e) => Res::Error(e),
            },
            other => Res::Residual(other.to_sexp().to_string()),
        },
    }
}

pub fn judge(s: &Session, st: &mut Stats) -> Result<(bool, bool), Viol> {
    let defs: Vec<String> = s.helpers.iter().map(|h| render_helper(h, false)).collect();
    judge_text(&defs, Some(&render_expr(&s.closed)), Some(&render_expr(&s.open)), &s.args, st)
}

/// definitions that build closures, a closed application and an open one (free variables x y z)
pub fn gen_closure_session(c: &mut Choices) -> (Vec<String>, String, String) {
    let ops = ["+", "-", "*", "logxor", "logand"];
    let k = c.range(2, 3); // captures
    let params: Vec<String> = (0..k).map(|i| format!("P{i}")).collect();
    let weights: Vec<i64> = (0..=k).map(|i| [100, 10, 1, 7][i % 4] * (1 + c.range(0, 2) as i64)).collect();
    // body mixes every capture and the lambda's own argument with distinct weights so that any
    // mix-up of positions changes the value
    let term = |name: &str, w: i64| format!("(* {w} {name})");
    let mut body = term("Y", weights[k]);
    for (i, p) in params.iter().enumerate() {
        let op = ops[c.pick(2)];
        body = format!("({op} {} {body})", term(p, weights[i]));
    }
    let caps = params.join(" ");
    let mut defs = vec![];
    let shape = c.pick(4);
    let (fname, call_shape): (&str, usize) = match shape {
        0 => {
            defs.push(format!("(defun H ({}) (lambda ((& {caps}) Y) {body}))", params.join(" ")));
            ("H", 0)
        }
        1 => {
            // lambda returning a lambda: the inner one captures the outer one's argument too
            let inner = format!("(lambda ((& {caps} Y) Z) (+ {body} (* 1000 Z)))");
            defs.push(format!("(defun H ({}) (lambda ((& {caps}) Y) {inner}))", params.join(" ")));
            ("H", 1)
        }
        2 => {
            // captures taken out of an (@ ALL (..)) parameter
            defs.push(format!("(defun H (@ ALL ({})) (lambda ((& {caps} ALL) Y) (c {body} ALL)))", params.join(" ")));
            ("H", 0)
        }
        _ => {
            defs.push(format!("(defun-inline HI ({}) (lambda ((& {caps}) Y) {body}))", params.join(" ")));
            ("HI", 0)
        }
    };
    let consts: Vec<String> = (0..k).map(|_| format!("{}", c.range(1, 9))).collect();
    let free = ["x", "y", "z"];
    // open: some arguments constant, some free; at least one of each when possible
    let mut open_args: Vec<String> = (0..k).map(|i| if c.chance(128) { consts[i].clone() } else { free[i % 3].to_string() }).collect();
    if open_args.iter().all(|a| free.contains(&a.as_str())) {
        open_args[0] = consts[0].clone();
    }
    if !open_args.iter().any(|a| free.contains(&a.as_str())) {
        let j = k - 1;
        open_args[j] = free[j % 3].to_string();
    }
    let y_closed = c.range(1, 9);
    let y_open = if c.chance(128) { format!("{}", c.range(1, 9)) } else { "z".to_string() };
    let (closed, open) = if call_shape == 1 {
        (
            format!("(a (a ({fname} {}) (list {y_closed})) (list {}))", consts.join(" "), c.range(1, 9)),
            format!("(a (a ({fname} {}) (list {y_open})) (list {}))", open_args.join(" "), c.range(1, 9)),
        )
    } else {
        (format!("(a ({fname} {}) (list {y_closed}))", consts.join(" ")), format!("(a ({fname} {}) (list {y_open}))", open_args.join(" ")))
    };
    (defs, closed, open)
}

pub fn judge_text(defs_in: &[String], closed: Option<&str>, open: Option<&str>, args: &[V], st: &mut Stats) -> Result<(bool, bool), Viol> {
    let mut repl = new_repl();
    let defs: Vec<String> = defs_in.to_vec();
    struct S<'a> {
        helpers: &'a [String],
        args: &'a [V],
    }
    let s = S { helpers: defs_in, args };
    for d in &defs {
        if let Res::Error(m) = repl_eval(&mut repl, d) {
            st.reject(&format!("[repl definition] {}", m.chars().take(80).collect::<String>()));
            return Ok((false, false));
        }
    }
    let mut closed_checked = false;
    let mut open_checked = false;
    let session_text = || defs.join("\n");
    // closed expression
    let ctext = closed.unwrap_or("()").to_string();
    match if closed.is_some() { repl_eval(&mut repl, &ctext) } else { Res::Nothing } {
        Res::Constant(v) => {
            st.label("closed:reduced-to-constant");
            match compile21(&Pat::Nil, s.helpers, &ctext) {
                Err(m) => st.reject(&format!("[closed program] {}", m.chars().take(80).collect::<String>())),
                Ok(code) => match sut::run_consensus(&code, &nil(), RUN_COST) {
                    Ok(v2) => {
                        closed_checked = true;
                        if v2 != v {
                            return Err(Viol::new(
                                "closed:constant-differs-from-compiled-program",
                                v2.show(),
                                v.show(),
                                json!({"definitions": session_text(), "expression": ctext, "compiled": disasm(&code), "constant_text": sut::to_rich(&v, true).map(|r| r.to_string()).unwrap_or_default()}),
                            ));
                        }
                    }
                    Err(_) => st.label("closed:compiled-program-fails(skip)"),
                },
            }
        }
        Res::Residual(_) => st.label("closed:not-reduced"),
        Res::Error(m) => {
            st.label("closed:repl-error");
            st.label(&format!("repl-error:{}", m.split(' ').take(3).collect::<Vec<_>>().join("-")));
        }
        Res::Nothing => {}
    }
    // open expression
    let otext = open.unwrap_or("()").to_string();
    // the oracle compiles the open expression as a mod whose parameters are named x y z; there a
    // form headed by x calls the parameter, while in the REPL (where x is not declared) it is the
    // raise operator: not the same expression, so nothing is compared
    let raise_shadowed = {
        let toks = crate::gen_text::tokenize(&otext);
        toks.windows(2).any(|w| w[0] == "(" && w[1] == "x")
    };
    if open.is_some() && raise_shadowed {
        st.label("open:raise-operator-shadowed-by-parameter-x(skip)");
    }
    match if open.is_some() && !raise_shadowed { repl_eval(&mut repl, &otext) } else { Res::Nothing } {
        Res::Constant(v) => {
            st.label("open:reduced-to-constant");
            // a constant residual: the original must return it wherever it returns
            if let Ok(code) = compile21(&xyz_pat(), s.helpers, &otext) {
                for a in s.args {
                    if let Ok(v2) = sut::run_consensus(&code, a, RUN_COST) {
                        open_checked = true;
                        if v2 != v {
                            return Err(Viol::new(
                                "open:constant-residual-differs",
                                v2.show(),
                                v.show(),
                                json!({"definitions": session_text(), "expression": otext, "args": a.show(), "compiled": disasm(&code)}),
                            ));
                        }
                    }
                }
            }
        }
        Res::Residual(r) => {
            // the residual must re-read to itself (losslessly printable), else skip
            let reread = sut::parse_one(&r).map(|p| p.to_string()).unwrap_or_default();
            if reread != r {
                st.label("open:residual-not-losslessly-printable(skip)");
            } else {
                if r != otext {
                    st.label("open:reduced");
                }
                let orig = compile21(&xyz_pat(), s.helpers, &otext);
                let resid = compile21(&xyz_pat(), s.helpers, &r);
                match (orig, resid) {
                    (Ok(co), Ok(cr)) => {
                        for a in s.args {
                            if let Ok(v1) = sut::run_consensus(&co, a, RUN_COST) {
                                open_checked = true;
                                match sut::run_consensus(&cr, a, RUN_COST) {
                                    Ok(v2) if v2 == v1 => {}
                                    other => {
                                        return Err(Viol::new(
                                            "open:residual-disagrees-with-original",
                                            v1.show(),
                                            format!("{:?}", other.map(|v| v.show())),
                                            json!({"definitions": session_text(), "expression": otext, "residual": r, "args": a.show()}),
                                        ))
                                    }
                                }
                            }
                        }
                    }
                    (Ok(_), Err(m)) => {
                        st.label("open:residual-does-not-compile(skip)");
                        st.label(&format!("residual-compile-error:{}", m.split(' ').take(4).collect::<Vec<_>>().join("-")));
                    }
                    _ => st.label("open:original-does-not-compile(skip)"),
                }
            }
        }
        Res::Error(m) => {
            st.label("open:repl-error");
            st.label(&format!("repl-error:{}", m.split(' ').take(3).collect::<Vec<_>>().join("-")));
        }
        Res::Nothing => {}
    }
    Ok((closed_checked, open_checked))
}

impl Prop for C16Prop {
    fn id(&self) -> &'static str {
        "C16"
    }
    fn rule(&self) -> &'static str {
        "A generated definition sequence (0..4 of defun incl. recursive templates, defun-inline, defconstant, defmacro templates; each entered through Repl::process_line before use), then a closed expression and an open expression over the free variables x y z from the C01 expression generator (let/let*/assign, lambdas, function values, macros, &rest calls, operators, literals). Oracle: closed e reduced to a constant v => (mod () defs e) compiled under cl21 runs to a value equal to v whenever it returns; open e with residual r that re-reads to itself => (mod (x y z) defs r) agrees with (mod (x y z) defs e) on every generated argument tuple on which the latter returns (a constant residual likewise). REPL errors (depth limit, unsupported forms) => skip. Second section (closures): template sessions in which a defun / defun-inline returns a lambda with 2..3 captures (plain, lambda returning a lambda that also captures the outer argument, captures taken from an (@ ALL (..)) parameter), every captured position entering the result with its own weight, applied to all-constant arguments (closed) and to mixes of constants and free variables (open). Non-trivial: the expression involves >= 1 entered definition and the REPL reduced it (result differs from input). Distinct by hash of the session text."
    }
    fn sections(&self, tier: Tier) -> Vec<Section> {
        vec![Section {
            name: "random",
            kind: SectionKind::Random {
                cases: tier.pick(1_000, 12_000),
                maxlen: 5000,
            },
            exhaustive: false,
            what: "definition sequences + closed and open expressions through Repl::process_line vs compiled programs",
        }, Section {
            name: "closures",
            kind: SectionKind::Random {
                cases: tier.pick(400, 5_000),
                maxlen: 80,
            },
            exhaustive: false,
            what: "functions returning lambdas with 2..3 captures (also lambdas returning lambdas, captures through (@ name pattern) and rest parameters), applied to mixes of constants and free variables",
        }]
    }
    fn run(&self, _sec: &str, input: &Input, tier: Tier, st: &mut Stats) -> Verdict {
        let Input::Bytes(bytes) = input else {
            return Verdict::Skip("index input not used");
        };
        if _sec == "closures" {
            let mut c = Choices::new(bytes);
            let (defs, closed, open) = gen_closure_session(&mut c);
            st.label("random_case");
            st.label("closure-session");
            let args = vec![list(vec![int(4), int(19), int(7)]), list(vec![int(-7), int(300), int(0)]), list(vec![int(1), int(2), int(3)])];
            return match judge_text(&defs, Some(&closed), Some(&open), &args, st) {
                Err(v) => Verdict::Violation(Box::new(v)),
                Ok((cc, oo)) => {
                    if cc {
                        st.label("closed-checked");
                    }
                    if oo {
                        st.label("open-checked");
                    }
                    if cc || oo {
                        st.label("checked");
                        st.nontrivial(fnv(format!("{defs:?}{closed}{open}").as_bytes()));
                        st.sample(|| json!({"definitions": defs, "closed": closed, "open": open}));
                        Verdict::Pass
                    } else {
                        Verdict::Skip("neither expression could be compared (REPL error / not reduced / program fails)")
                    }
                }
            };
        }
        let s = decode(bytes, tier);
        st.label("random_case");
        if s.collision {
            return Verdict::Skip("integer literal spells a name (generator precondition)");
        }
        for f in &s.feats {
            st.label(f);
        }
        match judge(&s, st) {
            Err(v) => Verdict::Violation(Box::new(v)),
            Ok((c, o)) => {
                if c {
                    st.label("closed-checked");
                }
                if o {
                    st.label("open-checked");
                }
                if c || o {
                    st.label("checked");
                    let uses_def = s.feats.iter().any(|f| matches!(*f, "defun-call" | "inline-call" | "macro-call" | "constant-use" | "function-name-as-value"));
                    if uses_def {
                        let text = format!("{}|{}|{}", s.helpers.iter().map(|h| render_helper(h, false)).collect::<Vec<_>>().join(" "), render_expr(&s.closed), render_expr(&s.open));
                        st.nontrivial(fnv(text.as_bytes()));
                        st.sample(|| json!({"definitions": s.helpers.iter().map(|h| render_helper(h, false)).collect::<Vec<_>>(), "closed": render_expr(&s.closed), "open": render_expr(&s.open)}));
                    }
                    Verdict::Pass
                } else {
                    Verdict::Skip("neither expression could be compared (REPL error / not reduced / program fails)")
                }
            }
        }
    }
    fn describe(&self, sec: &str, input: &Input, tier: Tier) -> Option<Value> {
        let Input::Bytes(bytes) = input else { return None };
        if sec == "closures" {
            let mut c = Choices::new(bytes);
            let (defs, closed, open) = gen_closure_session(&mut c);
            return Some(json!({"section": "closures", "definitions": defs.join("\n"), "closed": closed, "open": open}));
        }
        let s = decode(bytes, tier);
        Some(json!({"definitions": s.helpers.iter().map(|h| render_helper(h, false)).collect::<Vec<_>>().join("\n"), "closed": render_expr(&s.closed), "open": render_expr(&s.open)}))
    }
    fn replay(&self, case: &Value, st: &mut Stats) -> Option<Verdict> {
        let defs: Vec<String> = case.get("definitions")?.as_str()?.lines().filter(|l| !l.trim().is_empty()).map(|l| l.to_string()).collect();
        let e = case.get("expression")?.as_str()?;
        // fixed argument tuples for the open comparison
        let args = vec![list(vec![nil(), nil(), nil()]), list(vec![int(4), int(19), list(vec![int(1), int(2)])]), list(vec![int(-7), int(300), nil()])];
        let closed_only = case.get("kind").and_then(|k| k.as_str()) == Some("closed");
        let r = if closed_only { judge_text(&defs, Some(e), None, &args, st) } else { judge_text(&defs, None, Some(e), &args, st) };
        Some(match r {
            Err(v) => Verdict::Violation(Box::new(v)),
            Ok(_) => Verdict::Pass,
        })
    }
    fn known(&self, v: &Viol) -> Option<&'static str> {
        // One mechanism, three faces: the partial evaluator compiles the branches of an if
        // (com forms) without the surrounding bindings, so names that are not function
        // arguments -- let/assign-bound names and the REPL's free variables -- are taken as
        // quoted constants.  Excused only when the mechanism is visible in the case itself.
        let id = "evaluator-com-takes-unbound-names-as-constants";
        // whatever the face: a result that changes with the fresh-name counter embeds (or was
        // computed from) a renamed binding name that com took as a constant
        if let (Some(defs), Some(e)) = (v.case.get("definitions").and_then(|d| d.as_str()), v.case.get("expression").and_then(|d| d.as_str())) {
            let at = |n: usize| {
                chialisp::compiler::gensym::ARGNAME_CTR.store(n, std::sync::atomic::Ordering::SeqCst);
                let mut r = new_repl();
                for d in defs.lines() {
                    repl_eval(&mut r, d);
                }
                match repl_eval(&mut r, e) {
                    Res::Constant(c) => Some(format!("C{}", c.show())),
                    Res::Residual(t) => Some(format!("R{t}")),
                    _ => None,
                }
            };
            let (a1, a2) = (at(5000), at(5000));
            if a1.is_some() && a1 == a2 {
                // (the dependence can be on single digits of the name: several other values)
                for n in [777_777usize, 0, 99_999, 123_456, 1_000_001, 31, 2_222_222, 808] {
                    let b1 = at(n);
                    if b1.is_some() && a1 != b1 {
                        return Some(id);
                    }
                }
            }
        }
        match v.sig.as_str() {
            "closed:constant-differs-from-compiled-program" | "open:constant-residual-differs" => {
                // the constant contains, or was computed from, a *name*: a consistent renaming of
                // the names the expression binds or leaves free changes it
                if v.case.get("constant_text").and_then(|t| t.as_str()).map(|t| t.contains("_$_")).unwrap_or(false) {
                    return Some(id);
                }
                // ... also when the name came back as one atom shown in hex: the bytes of "_$_"
                if v.observed.contains("5f245f") {
                    return Some(id);
                }
                let defs = v.case.get("definitions")?.as_str()?;
                let e = v.case.get("expression")?.as_str()?;
                let renamed = rename_free(e);
                let mut r1 = new_repl();
                let mut r2 = new_repl();
                for d in defs.lines() {
                    repl_eval(&mut r1, d);
                    repl_eval(&mut r2, d);
                }
                match (repl_eval(&mut r1, e), repl_eval(&mut r2, &renamed)) {
                    (Res::Constant(a), Res::Constant(b)) if a != b => Some(id),
                    (Res::Constant(a), _) => {
                        // or the constant is exactly what the expression gives, as a compiled
                        // program, once every let/assign-bound name inside the branches of an if
                        // is replaced by the atom of its (renamed) spelling -- com's view; only
                        // the shape or sign of such a value matters here, else the counter test
                        // above would have seen it (expressions without free variables only)
                        let has_free = crate::gen_text::tokenize(e).iter().any(|t| matches!(t.as_str(), "x" | "y" | "z"));
                        if !has_free {
                            if let Some(view) = com_view(e) {
                                let helpers: Vec<String> = defs.lines().map(|l| l.to_string()).filter(|l| !l.trim().is_empty()).collect();
                                if let Ok(code) = compile21(&Pat::Nil, &helpers, &view) {
                                    if let Ok(b) = sut::run_consensus(&code, &nil(), RUN_COST) {
                                        if b == a {
                                            return Some(id);
                                        }
                                    }
                                }
                            }
                        }
                        // or the constant is what the expression gives when each free variable IS
                        // the atom that spells its name (renaming cannot show that when only the
                        // shape of the value matters, as in (l z))
                        let quoted = quote_free(e);
                        let mut r3 = new_repl();
                        for d in defs.lines() {
                            repl_eval(&mut r3, d);
                        }
                        match repl_eval(&mut r3, &quoted) {
                            Res::Constant(c) if c == a && crate::gen_text::tokenize(e).iter().any(|t| matches!(t.as_str(), "x" | "y" | "z")) => Some(id),
                            _ => None,
                        }
                    }
                    _ => None,
                }
            }
            "open:residual-disagrees-with-original" => {
                // the residual quotes a free variable: (1 . x), (q . x), (1 1 . x)
                let r = v.case.get("residual")?.as_str()?;
                // ... or a renamed let/assign-bound name as a constant: (1 . V20_$_2071848)
                if r.contains("_$_") {
                    return Some(id);
                }
                // ... or an if branch that com compiled to code returning a bare quoted constant,
                // (q 2 (1 . K) (4 (1) 1)): what a bound name under an if turns into when the
                // bindings in force are not visible to com
                if r.contains("(q 2 (1 . ") && r.contains("(4 (1) 1))") {
                    return Some(id);
                }
                if ["x", "y", "z"].iter().any(|n| r.contains(&format!("1 . {n})")) || r.contains(&format!("q . {n})"))) {
                    return Some(id);
                }
                // ... or the quoted name was computed with and is no longer visible ((ash y -1)
                // under an if came back as 60, half of the byte that spells y): then the residual,
                // compiled, returns on the case's arguments exactly what the *compiled* expression
                // returns once every free variable and let/assign-bound name inside the branches
                // of an if is replaced by the atom spelling it
                let e = v.case.get("expression")?.as_str()?;
                let defs = v.case.get("definitions").and_then(|d| d.as_str()).unwrap_or("");
                let args_text = v.case.get("args")?.as_str()?;
                let view = com_view_free(e)?;
                let helpers: Vec<String> = defs.lines().map(|l| l.to_string()).filter(|l| !l.trim().is_empty()).collect();
                let args = {
                    let mut al = clvmr::Allocator::new();
                    let n = chialisp::classic::clvm_tools::binutils::assemble(&mut al, args_text).ok()?;
                    V::from_node(&al, n)
                };
                let code_r = compile21(&xyz_pat(), &helpers, r).ok()?;
                let code_v = compile21(&xyz_pat(), &helpers, &view).ok()?;
                match (sut::run_consensus(&code_r, &args, RUN_COST), sut::run_consensus(&code_v, &args, RUN_COST)) {
                    (Ok(a), Ok(b)) if a == b => Some(id),
                    _ => None,
                }
            }
            _ => None,
        }
    }
    fn sut_crash_is_violation(&self) -> bool {
        false
    }
    fn case_timeout(&self) -> (u64, bool) {
        (40, false)
    }
    fn health_floors(&self, _tier: Tier) -> Vec<(&'static str, &'static str, f64)> {
        vec![("checked", "random_case", 0.3)]
    }
}
