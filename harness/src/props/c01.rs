//! C01 — compiled modern Chialisp computes what the source means.

use crate::choices::{fnv, Choices};
use crate::core::*;
use crate::gen_lisp::*;
use crate::gen_value::*;
use crate::refint::{reference, Outcome};
use crate::sut::{self, ModernOpts};
use serde_json::{json, Value};

pub struct C01Prop;
pub static C01: C01Prop = C01Prop;

pub const RUN_COST: u64 = 4_000_000_000;

pub fn disasm(v: &V) -> String {
    let mut a = clvmr::Allocator::new();
    let n = v.to_node(&mut a);
    chialisp::classic::clvm_tools::binutils::disassemble(&a, n, Some(2)).chars().take(1500).collect()
}

/// does an integer literal of the program spell a name used in it? (generator precondition for
/// the non-strict dialects; checked after generation because names are created incrementally)
pub fn literal_name_collision(p: &Program, names: &std::collections::BTreeSet<Vec<u8>>) -> bool {
    fn ex(e: &Expr, names: &std::collections::BTreeSet<Vec<u8>>) -> bool {
        match e {
            Expr::Int(n) => names.contains(&int_bytes_big(n)),
            Expr::Str(_) | Expr::Hex(_) | Expr::Nil | Expr::Quote(_) | Expr::Var(_) | Expr::FunRef(_) => false,
            Expr::If(a, b, c) => ex(a, names) || ex(b, names) || ex(c, names),
            Expr::Prim(_, args) | Expr::List(args) | Expr::MacroCall { args, .. } => args.iter().any(|a| ex(a, names)),
            Expr::Call { args, rest, .. } => args.iter().any(|a| ex(a, names)) || rest.as_ref().map(|r| ex(r, names)).unwrap_or(false),
            Expr::Let { binds, body, .. } => binds.iter().any(|b| ex(&b.1, names)) || ex(body, names),
            Expr::Assign { binds, body, .. } => binds.iter().any(|b| ex(&b.1, names)) || ex(body, names),
            Expr::Lambda { body, .. } => ex(body, names),
            Expr::Apply(a, b) => ex(a, names) || ex(b, names),
            Expr::QQList(items) => items.iter().any(|i| match i {
                Ok(_) => false,
                Err(e) => ex(e, names),
            }),
            Expr::ModExpr(p) => pr(p, names),
        }
    }
    fn pr(p: &Program, names: &std::collections::BTreeSet<Vec<u8>>) -> bool {
        p.helpers.iter().any(|h| match h {
            Helper::Defun { body, .. } => ex(body, names),
            Helper::Defconst { expr, .. } => ex(expr, names),
            Helper::Defconstant { value, .. } => matches!(value, V::A(b) if names.contains(b)),
            _ => false,
        }) || ex(&p.body, names)
    }
    pr(p, names)
}

pub struct Case {
    pub prog: Program,
    pub feats: Vec<&'static str>,
    pub args: Vec<V>,
    pub collision: bool,
}

pub fn decode_case(bytes: &[u8], tier: Tier, cfg: Option<GenCfg>) -> Case {
    let mut c = Choices::new(bytes);
    let cfg = cfg.unwrap_or_else(|| GenCfg::modern(tier == Tier::Quick));
    let (prog, feats, names) = {
        let mut g = Gen::new(&mut c, cfg);
        let p = g.gen_program();
        (p, g.feats.iter().copied().collect::<Vec<_>>(), g.all_names.clone())
    };
    let nargs = 3;
    let args = (0..nargs).map(|_| gen_args_for(&mut c, &prog.params)).collect();
    let collision = literal_name_collision(&prog, &names);
    Case { prog, feats, args, collision }
}

pub fn nontrivial_feats(feats: &[&'static str]) -> bool {
    feats.iter().any(|f| {
        matches!(
            *f,
            "defun-call" | "inline-call" | "let" | "let*" | "assign" | "assign-inline" | "assign-lambda" | "lambda" | "apply-function-value"
                | "destructured-param" | "at-capture" | "&rest-call" | "rest-param" | "macro-call" | "defconst" | "lambda-captures"
        )
    })
}

/// judge one (program, dialect, options) against the reference on all argument trees.
/// Returns Ok(number of argument trees with a defined reference value) or the violation.
pub fn judge_build(
    prog: &Program,
    d: Dialect,
    mo: ModernOpts,
    args: &[V],
    refs: &[Outcome],
    st: &mut Stats,
) -> Result<usize, Viol> {
    let text = render_program(prog, Some(d));
    let compiled = match sut::compile_modern(&text, d.sigil(), mo, "*verif*.clsp", &[]) {
        Ok(c) => c,
        Err((l, m)) => {
            st.reject(&format!("[{}] {}", d.name(), m));
            let _ = l;
            return Ok(0);
        }
    };
    let mut defined = 0;
    for (a, r) in args.iter().zip(refs.iter()) {
        if let Outcome::Value(want) = r {
            defined += 1;
            let got = sut::run_consensus(&compiled.code, a, RUN_COST);
            let case = || {
                json!({"source": text, "dialect": d.name(), "options": mo.name(), "args": a.show(), "args_hex": hex(&a.ser()),
                       "expected_hex": hex(&want.ser()), "compiled": disasm(&compiled.code), "compiled_hex": hex(&compiled.code.ser())})
            };
            match got {
                Ok(v) => {
                    if &v != want {
                        return Err(Viol::new(&format!("wrong-value:{}", d.name()), want.show(), v.show(), case()));
                    }
                }
                Err(m) => {
                    if sut::is_cost_exceeded(&m) {
                        st.label("skip:run-cost-limit");
                        continue;
                    }
                    return Err(Viol::new(&format!("compiled-fails:{}", d.name()), want.show(), format!("error: {m}"), case()));
                }
            }
        }
    }
    Ok(defined)
}

/// mechanism markers in emitted code, used by known-finding signatures
pub fn code_has_gensym_atom(code: &V) -> bool {
    let mut atoms = vec![];
    code.atoms(&mut atoms);
    atoms.iter().any(|a| a.windows(3).any(|w| w == b"_$_"))
}

/// (a (q . PATH) (q . ATOM)) with PATH > 1: a constant-folded path into an atom
pub fn code_has_const_path_into_atom(code: &V) -> bool {
    fn quoted_atom(v: &V) -> Option<&Vec<u8>> {
        match v {
            V::P(h, t) => match (&**h, &**t) {
                (V::A(q), V::A(b)) if q == &[1u8] => Some(b),
                _ => None,
            },
            _ => None,
        }
    }
    match code {
        V::A(_) => false,
        V::P(h, t) => {
            if let (V::A(op), V::P(a1, rest)) = (&**h, &**t) {
                if op == &[2u8] {
                    if let V::P(a2, end) = &**rest {
                        if end.is_nil() {
                            if let (Some(p), Some(_)) = (quoted_atom(a1), quoted_atom(a2)) {
                                if !p.is_empty() && p != &[1u8] {
                                    return true;
                                }
                            }
                            // the same defect with a whole program instead of a path: quoted code
                            // applied to the quoted atom 64, i.e. to "@" (the environment) taken
                            // as the number its byte spells
                            if quoted_atom(a2) == Some(&vec![64u8]) && !matches!(quoted_atom(a1), Some(p) if p.len() <= 1 && p != &vec![64u8] && (p.is_empty() || p == &vec![1u8])) {
                                return true;
                            }
                        }
                    }
                }
            }
            code_has_const_path_into_atom(h) || code_has_const_path_into_atom(t)
        }
    }
}

/// (a CODE (q . 64)) with CODE not a path: code applied to the quoted atom 64 where the
/// environment reference @ (byte 0x40) belongs
pub fn code_applies_code_to_quoted_64(code: &V) -> bool {
    fn quoted_atom(v: &V) -> Option<&Vec<u8>> {
        match v {
            V::P(h, t) => match (&**h, &**t) {
                (V::A(q), V::A(b)) if q == &[1u8] => Some(b),
                _ => None,
            },
            _ => None,
        }
    }
    match code {
        V::A(_) => false,
        V::P(h, t) => {
            if let (V::A(op), V::P(a1, rest)) = (&**h, &**t) {
                if op == &[2u8] {
                    if let V::P(a2, end) = &**rest {
                        if end.is_nil() && quoted_atom(a2) == Some(&vec![64u8]) && matches!(&**a1, V::P(_, _)) && quoted_atom(a1).is_none() {
                            return true;
                        }
                    }
                }
            }
            code_applies_code_to_quoted_64(h) || code_applies_code_to_quoted_64(t)
        }
    }
}

/// is the build's output a function of the fresh-name counter (same code twice at one counter
/// value, different code at another)?
pub fn build_depends_on_the_counter(src: &str, sigil: &str, mo: ModernOpts) -> bool {
    let at = |n: usize| {
        chialisp::compiler::gensym::ARGNAME_CTR.store(n, std::sync::atomic::Ordering::SeqCst);
        sut::compile_modern(src, sigil, mo, "*verif*.clsp", &[]).ok().map(|c| c.code.ser())
    };
    let (a1, a2) = (at(5000), at(5000));
    if a1.is_none() || a1 != a2 {
        return false;
    }
    for n in [777_777usize, 0, 50, 950, 99_990, 999_990, 100, 31, 123_456] {
        let b1 = at(n);
        if b1.is_some() && a1 != b1 {
            return true;
        }
    }
    false
}

pub fn known_for_build(v: &Viol) -> Option<&'static str> {
    let d = v.case.get("dialect")?.as_str()?;
    let opts = v.case.get("options").and_then(|o| o.as_str()).unwrap_or("");
    let src = v.case.get("source").and_then(|s| s.as_str()).unwrap_or("");
    // (a rejected build has no code: this predicate comes first)
    // cl23+ CSE binds a repeated sub-expression outside the assign/let that binds a name the
    // sub-expression uses: the optimised build is rejected with "Unbound use of <renamed binding>".
    // Excused only when (1) cl23+ with optimize on, (2) the build is *rejected* with exactly that
    // message about a renamed (gensym'd) name, (3) the source repeats a call form.
    if (d == "cl23" || d == "cl23.1" || d == "cl24") && opts.contains("opt=1") && (v.sig.starts_with("optimised-build-rejects") || v.sig.starts_with("compile-error")) && v.observed.contains("Unbound use of") && v.observed.contains("_$_") && source_repeats_a_call(src) {
        return Some("cl23-cse-lifts-an-expression-out-of-the-binding-it-uses");
    }
    let code = sut::consensus_deserialize(&hex::decode(v.case.get("compiled_hex")?.as_str()?).ok()?).ok()?;
    // the evaluator's com handling is reached through the cl22 frontend optimiser and, in every
    // dialect, through defconst evaluation
    if (d == "cl22" || opts.contains("fe=1") || src.contains("(defconst ")) && code_has_gensym_atom(&code) {
        return Some("evaluator-com-leaks-let-bound-names");
    }
    // ... also when the leaked name was used as a *path* or computed with, which hides its
    // spelling: then the visible fact is that the code is a function of the fresh-name counter
    if (d == "cl22" || opts.contains("fe=1") || src.contains("(defconst ")) && (v.sig.starts_with("compiled-fails") || v.sig.starts_with("wrong-value")) {
        if let Some(dl) = Dialect::parse(d) {
            let mo = ModernOpts { optimize: opts.contains("opt=1"), frontend_opt: opts.contains("fe=1"), post_opt: opts.contains("post=1") };
            if build_depends_on_the_counter(src, dl.sigil(), mo) {
                return Some("evaluator-com-leaks-let-bound-names");
            }
        }
    }
    // cl21: a let/assign binding whose value is the byte 0x40 (written 0x40 or "@") under an if
    // makes the if macro's environment reference @ come out as the constant 64
    if d == "cl21" && (src.contains(" 0x40)") || src.contains(" 0x40 ") || src.contains("\"@\"")) && src.contains("(if ") && code_applies_code_to_quoted_64(&code) {
        return Some("cl21-binding-of-byte-0x40-turns-the-if-macros-environment-into-64");
    }
    if (d == "cl23" || d == "cl23.1" || d == "cl24" || d == "strict-cl21") && opts.contains("opt=1") && code_has_const_path_into_atom(&code) {
        return Some("cl23-constant-folds-path-into-atom");
    }
    // CSE hoists a repeated partial operation above the conditions that guard it.  Excused only
    // when (1) cl23+ with optimize on, (2) the optimised program FAILS (never a wrong value),
    // (3) some function or the main expression contains a partial operation (f r / % divmod
    // substr) that occurs at least twice, and (4) the unoptimised build of the same dialect
    // returns the expected value on the same arguments.
    if (d == "cl23" || d == "cl23.1" || d == "cl24") && opts.contains("opt=1") && (v.sig.starts_with("compiled-fails") || v.sig.starts_with("optimised-build-fails") || v.sig.starts_with("entry-code-fails")) && source_has_repeated_partial_op(src) {
        let sigil = Dialect::parse(d)?.sigil();
        let args = v.case.get("args_hex").and_then(|h| h.as_str()).and_then(|h| hex::decode(h).ok()).and_then(|b| sut::consensus_deserialize(&b).ok());
        let want = v.case.get("expected_hex").and_then(|h| h.as_str()).and_then(|h| hex::decode(h).ok()).and_then(|b| sut::consensus_deserialize(&b).ok());
        if let (Some(args), Some(want)) = (args, want) {
            let unopt = sut::compile_modern(src, sigil, ModernOpts { optimize: false, frontend_opt: opts.contains("fe=1"), post_opt: false }, "*verif*.clsp", &[]).ok()?;
            if sut::run_consensus(&unopt.code, &args, RUN_COST).ok().as_ref() == Some(&want) {
                return Some("cl23-cse-hoists-partial-operation-above-its-guard");
            }
        }
    }
    // Legacy integer mode (dialects before cl23.1): optimising passes evaluate constants through
    // integers, which drops redundant leading bytes (0x00 -> (), 0x0007 -> 7).  Excused only when
    // (1) the dialect has no int_fix, (2) some optimisation switch is on, (3) a value came back
    // that equals the expected one once every atom is reduced to its minimal integer spelling,
    // and (4) the build of the same dialect with every switch off returns the expected value.
    if matches!(d, "cl21" | "strict-cl21" | "cl22" | "cl23") && v.sig.starts_with("wrong-value") && (opts.contains("opt=1") || opts.contains("fe=1") || opts.contains("post=1")) {
        fn norm(v: &V) -> V {
            match v {
                V::A(b) => V::A(chialisp::util::u8_from_number(chialisp::util::number_from_u8(b))),
                V::P(a, b) => V::P(std::rc::Rc::new(norm(a)), std::rc::Rc::new(norm(b))),
            }
        }
        let sigil = Dialect::parse(d)?.sigil();
        let args = v.case.get("args_hex").and_then(|h| h.as_str()).and_then(|h| hex::decode(h).ok()).and_then(|b| sut::consensus_deserialize(&b).ok())?;
        let want = v.case.get("expected_hex").and_then(|h| h.as_str()).and_then(|h| hex::decode(h).ok()).and_then(|b| sut::consensus_deserialize(&b).ok())?;
        let got = sut::run_consensus(&code, &args, RUN_COST).ok()?;
        if got != want && norm(&got) == norm(&want) {
            let unopt = sut::compile_modern(src, sigil, ModernOpts { optimize: false, frontend_opt: false, post_opt: false }, "*verif*.clsp", &[]).ok()?;
            if sut::run_consensus(&unopt.code, &args, RUN_COST).ok().as_ref() == Some(&want) {
                return Some("legacy-int-mode-optimisation-drops-redundant-leading-bytes");
            }
        }
    }
    None
}

/// does some top-level form of the source contain the same call form (a list of >= 3 tokens) twice?
pub fn source_repeats_a_call(src: &str) -> bool {
    use chialisp::compiler::sexp::SExp;
    use std::borrow::Borrow;
    fn collect(s: &SExp, out: &mut Vec<String>) {
        if let SExp::Cons(_, h, t) = s {
            if matches!(h.borrow(), SExp::Atom(_, _)) && s.proper_list().map(|l| l.len() >= 3).unwrap_or(false) {
                out.push(s.to_string());
            }
            // (list a b c) expands to (c a (c b (c c ()))): every suffix is a call form of its own
            if let (SExp::Atom(_, n), Some(l)) = (h.borrow(), s.proper_list()) {
                if n == b"list" {
                    for i in 2..l.len() {
                        out.push(format!("(list {})", l[i..].iter().map(|x| x.to_string()).collect::<Vec<_>>().join(" ")));
                    }
                }
            }
            collect(h.borrow(), out);
            collect(t.borrow(), out);
        }
    }
    let Ok(forms) = chialisp::compiler::sexp::parse_sexp(sut::loc(), src.bytes()) else {
        return false;
    };
    let mut v = vec![];
    for f in forms.iter() {
        collect(f.borrow(), &mut v);
    }
    v.sort();
    v.windows(2).any(|w| w[0] == w[1])
}

/// does some top-level form of the source contain a partial operation (f, r, /, %, divmod,
/// substr applied to something) that occurs textually at least twice?
pub fn source_has_repeated_partial_op(src: &str) -> bool {
    use chialisp::compiler::sexp::SExp;
    use std::borrow::Borrow;
    fn collect(s: &SExp, out: &mut Vec<String>) {
        if let SExp::Cons(_, h, t) = s {
            if let SExp::Atom(_, name) = h.borrow() {
                if matches!(name.as_slice(), b"f" | b"r" | b"/" | b"%" | b"divmod" | b"substr") {
                    out.push(s.to_string());
                }
            }
            collect(h.borrow(), out);
            collect(t.borrow(), out);
        }
    }
    let Ok(forms) = chialisp::compiler::sexp::parse_sexp(sut::loc(), src.bytes()) else {
        return false;
    };
    for f in forms {
        // each element of the mod form separately (helpers, main expression)
        let mut cur: std::rc::Rc<SExp> = f;
        loop {
            let next = match cur.borrow() {
                SExp::Cons(_, h, t) => {
                    let mut v = vec![];
                    collect(h.borrow(), &mut v);
                    v.sort();
                    if v.windows(2).any(|w| w[0] == w[1]) {
                        return true;
                    }
                    t.clone()
                }
                _ => break,
            };
            cur = next;
        }
    }
    false
}

/// AST-level reduction of a failing (program, args) for one build
pub fn reduce_for(prog: &Program, args: &[V], d: Dialect, mo: ModernOpts, sig: &str) -> Option<Viol> {
    let mut last: Option<Viol> = None;
    let mut still = |p: &Program| -> bool {
        crate::worker::heartbeat();
        let refs: Vec<Outcome> = args.iter().map(|a| reference(p, a)).collect();
        let mut st = Stats { scratch: true, ..Default::default() };
        match judge_build(p, d, mo, args, &refs, &mut st) {
            Err(v2) if v2.sig == sig => {
                last = Some(v2);
                true
            }
            _ => false,
        }
    };
    let _ = crate::reduce::reduce_program(prog, &mut still, 500);
    last
}

// ---------------------------------------------------------------------------------------------
// systematic parameter-shape family

/// all binary pattern shapes with exactly n leaves (names assigned left to right)
fn shapes(n: usize) -> Vec<Pat> {
    fn go(n: usize, counter: &mut usize) -> Vec<Box<dyn Fn(&mut usize) -> Pat>> {
        let _ = counter;
        if n == 1 {
            return vec![Box::new(|k: &mut usize| {
                *k += 1;
                Pat::Name(format!("Z{}", *k), Ty::Any)
            })];
        }
        let mut out: Vec<Box<dyn Fn(&mut usize) -> Pat>> = vec![];
        for l in 1..n {
            let ls = go(l, counter);
            let rs = go(n - l, counter);
            for li in 0..ls.len() {
                for ri in 0..rs.len() {
                    let lf = go(l, counter).swap_remove(li);
                    let rf = go(n - l, counter).swap_remove(ri);
                    out.push(Box::new(move |k: &mut usize| {
                        let a = lf(k);
                        let b = rf(k);
                        Pat::Cons(Box::new(a), Box::new(b))
                    }));
                }
            }
        }
        out
    }
    let mut c = 0;
    go(n, &mut c)
        .into_iter()
        .map(|f| {
            let mut k = 0;
            f(&mut k)
        })
        .collect()
}

pub struct ParamCase {
    pub params: Pat,
    pub leaf: String,
    pub what: String,
}

/// the family: flat lists 1..40 (every position), every binary shape with <= 5 leaves (every
/// leaf), the same with an (@ W ..) wrapped around the whole / the first element
pub fn param_family() -> Vec<ParamCase> {
    let mut out = vec![];
    for n in 1..=40usize {
        let names: Vec<String> = (1..=n).map(|i| format!("Z{i}")).collect();
        let pat = list_pat(names.iter().map(|x| Pat::Name(x.clone(), Ty::Any)).collect(), Pat::Nil);
        for x in &names {
            out.push(ParamCase {
                params: pat.clone(),
                leaf: x.clone(),
                what: format!("flat{n}"),
            });
        }
    }
    for n in 1..=5usize {
        for (si, sh) in shapes(n).into_iter().enumerate() {
            let mut names = vec![];
            pat_names(&sh, &mut names);
            // as the whole parameter tree
            for (x, _) in &names {
                out.push(ParamCase {
                    params: sh.clone(),
                    leaf: x.clone(),
                    what: format!("tree{n}.{si}"),
                });
            }
            // as first element of a list with an @ capture, plus a trailing parameter
            let wrapped = list_pat(vec![Pat::At("W".into(), Box::new(sh.clone())), Pat::Name("T".into(), Ty::Any)], Pat::Nil);
            let mut wnames: Vec<String> = names.iter().map(|x| x.0.clone()).collect();
            wnames.push("W".into());
            wnames.push("T".into());
            for x in wnames {
                if n == 1 && x == "W" {
                    continue;
                }
                out.push(ParamCase {
                    params: wrapped.clone(),
                    leaf: x,
                    what: format!("at-tree{n}.{si}"),
                });
            }
        }
    }
    out
}

fn rebuild(p: &Pat) -> String {
    match p {
        Pat::Nil => "()".into(),
        Pat::Name(n, _) => n.clone(),
        Pat::At(n, _) => n.clone(),
        Pat::Cons(a, b) => format!("(c {} {})", rebuild(a), rebuild(b)),
    }
}

/// call arguments that rebuild the parameter tree: positional for proper lists, &rest otherwise
fn call_args(p: &Pat) -> String {
    let mut items = vec![];
    let mut cur = p;
    loop {
        match cur {
            Pat::Cons(a, b) => {
                items.push(rebuild(a));
                cur = b;
            }
            Pat::Nil => return items.join(" "),
            other => {
                return format!("{} &rest {}", items.join(" "), rebuild(other));
            }
        }
    }
}

fn value_for(p: &Pat, k: &mut i64) -> V {
    match p {
        Pat::Nil => nil(),
        Pat::Name(_, _) => {
            *k += 1;
            int(1000 + *k)
        }
        Pat::At(_, p) => value_for(p, k),
        Pat::Cons(a, b) => {
            let x = value_for(a, k);
            let y = value_for(b, k);
            cons(x, y)
        }
    }
}

fn lookup_in(p: &Pat, v: &V, leaf: &str) -> Option<V> {
    match p {
        Pat::Nil => None,
        Pat::Name(n, _) => (n == leaf).then(|| v.clone()),
        Pat::At(n, inner) => {
            if n == leaf {
                Some(v.clone())
            } else {
                lookup_in(inner, v, leaf)
            }
        }
        Pat::Cons(a, b) => match v {
            V::P(l, r) => lookup_in(a, l, leaf).or_else(|| lookup_in(b, r, leaf)),
            _ => None,
        },
    }
}

fn judge_param_case(pc: &ParamCase, d: Dialect, classic: bool) -> Result<(), Viol> {
    let ps = render_pat(&pc.params);
    let cargs = call_args(&pc.params);
    let sig = if classic { String::new() } else { format!("(include {})", d.sigil()) };
    let body = if classic && cargs.contains("&rest") {
        // classic has no &rest call syntax: only the direct reference is checked
        format!("(list {0} {0} {0})", pc.leaf)
    } else {
        format!("(list {0} (f_ {1}) (g_ {1}))", pc.leaf, cargs)
    };
    let src = format!("(mod {ps} {sig} (defun f_ {ps} {leaf}) (defun-inline g_ {ps} {leaf}) {body})", leaf = pc.leaf);
    let mut k = 0;
    let args = value_for(&pc.params, &mut k);
    let want1 = lookup_in(&pc.params, &args, &pc.leaf).unwrap_or_else(nil);
    let want = list(vec![want1.clone(), want1.clone(), want1]);
    let code = if classic {
        sut::compile_lib(&src, false, &[])
    } else {
        sut::compile_modern(&src, d.sigil(), ModernOpts::cli_default(d.stepping()), "*verif*.clsp", &[])
            .map(|c| c.code)
            .map_err(|e| e.1)
    };
    let case = |compiled: &str| json!({"source": src, "dialect": d.name(), "args": args.show(), "args_hex": hex(&args.ser()), "expected_hex": hex(&want.ser()), "compiled": compiled, "family": pc.what});
    match code {
        Err(e) => return Err(Viol::new(&format!("param-family:compile-error:{}", d.name()), "compiles", e, case(""))),
        Ok(code) => match sut::run_consensus(&code, &args, RUN_COST) {
            Ok(v) if v == want => {}
            Ok(v) => return Err(Viol::new(&format!("param-family:wrong-value:{}", d.name()), want.show(), v.show(), case(&disasm(&code)))),
            Err(m) => return Err(Viol::new(&format!("param-family:compiled-fails:{}", d.name()), want.show(), m, case(&disasm(&code)))),
        },
    }
    // second form: the same tree as ONE destructured parameter of a defun and of a defun-inline,
    // applied to an opaque value (the call above rebuilds the argument with c, which lets the
    // inliner take the pattern apart syntactically; an opaque argument needs path arithmetic)
    let src2 = format!("(mod WHOLE_ {sig} (defun f1_ ({ps}) {leaf}) (defun-inline g1_ ({ps}) {leaf}) (list (f1_ WHOLE_) (g1_ WHOLE_)))", leaf = pc.leaf);
    let w1 = want.first().cloned().unwrap_or_else(nil);
    let want2 = list(vec![w1.clone(), w1]);
    let code2 = if classic {
        sut::compile_lib(&src2, false, &[])
    } else {
        sut::compile_modern(&src2, d.sigil(), ModernOpts::cli_default(d.stepping()), "*verif*.clsp", &[])
            .map(|c| c.code)
            .map_err(|e| e.1)
    };
    let case2 = |compiled: &str| json!({"source": src2, "dialect": d.name(), "args": args.show(), "args_hex": hex(&args.ser()), "expected_hex": hex(&want2.ser()), "compiled": compiled, "family": format!("{}:as-one-parameter", pc.what)});
    match code2 {
        Err(e) => return Err(Viol::new(&format!("param-family:compile-error:{}", d.name()), "compiles", e, case2(""))),
        Ok(code) => match sut::run_consensus(&code, &args, RUN_COST) {
            Ok(v) if v == want2 => {}
            Ok(v) => return Err(Viol::new(&format!("param-family:wrong-value:{}", d.name()), want2.show(), v.show(), case2(&disasm(&code)))),
            Err(m) => return Err(Viol::new(&format!("param-family:compiled-fails:{}", d.name()), want2.show(), m, case2(&disasm(&code)))),
        },
    }
    // third form: a module with a constant and no function (the arguments then sit at other
    // paths than next to a function table)
    let src3 = format!("(mod {ps} {sig} (defconstant K_ 7) (list {leaf} K_))", leaf = pc.leaf);
    let w1 = want.first().cloned().unwrap_or_else(nil);
    let want3 = list(vec![w1, V::A(vec![7])]);
    let code3 = if classic {
        sut::compile_lib(&src3, false, &[])
    } else {
        sut::compile_modern(&src3, d.sigil(), ModernOpts::cli_default(d.stepping()), "*verif*.clsp", &[])
            .map(|c| c.code)
            .map_err(|e| e.1)
    };
    let case3 = |compiled: &str| json!({"source": src3, "dialect": d.name(), "args": args.show(), "args_hex": hex(&args.ser()), "expected_hex": hex(&want3.ser()), "compiled": compiled, "family": format!("{}:constant-no-function", pc.what)});
    match code3 {
        Err(e) => Err(Viol::new(&format!("param-family:compile-error:{}", d.name()), "compiles", e, case3(""))),
        Ok(code) => match sut::run_consensus(&code, &args, RUN_COST) {
            Ok(v) if v == want3 => Ok(()),
            Ok(v) => Err(Viol::new(&format!("param-family:wrong-value:{}", d.name()), want3.show(), v.show(), case3(&disasm(&code)))),
            Err(m) => Err(Viol::new(&format!("param-family:compiled-fails:{}", d.name()), want3.show(), m, case3(&disasm(&code)))),
        },
    }
}

pub fn run_param_case(i: u64, dialects: &[Dialect], st: &mut Stats) -> Verdict {
    let fam = param_family();
    let n = fam.len() as u64;
    let d = dialects[(i / n) as usize % dialects.len()];
    let pc = &fam[(i % n) as usize];
    st.label(&format!("family:{}", pc.what.split('.').next().unwrap_or("").trim_end_matches(char::is_numeric)));
    match judge_param_case(pc, d, d == Dialect::Classic) {
        Err(v) => Verdict::Violation(Box::new(v)),
        Ok(()) => {
            st.nontrivial(i);
            st.sample(|| json!({"section": "params_systematic", "dialect": d.name(), "params": render_pat(&pc.params), "leaf": pc.leaf}));
            Verdict::Pass
        }
    }
}

/// replay from the readable fields: compile `source` under `dialect`/`options`, run on `args_hex`,
/// compare with `expected_hex` (bypasses generator and reference interpreter)
pub fn replay_source_case(case: &Value) -> Option<Verdict> {
    let src = case.get("source")?.as_str()?;
    let d = Dialect::parse(case.get("dialect")?.as_str()?)?;
    let args = sut::consensus_deserialize(&hex::decode(case.get("args_hex")?.as_str()?).ok()?).ok()?;
    let want = sut::consensus_deserialize(&hex::decode(case.get("expected_hex")?.as_str()?).ok()?).ok()?;
    let mo = match case.get("options").and_then(|o| o.as_str()) {
        Some(o) => ModernOpts {
            optimize: o.contains("opt=1"),
            frontend_opt: o.contains("fe=1"),
            post_opt: o.contains("post=1"),
        },
        None => ModernOpts::cli_default(d.stepping()),
    };
    let code = if d == Dialect::Classic {
        sut::compile_lib(src, mo.post_opt, &[])
    } else {
        sut::compile_modern(src, d.sigil(), mo, "*verif*.clsp", &[]).map(|c| c.code).map_err(|e| e.1)
    };
    Some(match code {
        Err(e) => Verdict::Violation(Box::new(Viol::new(&format!("compile-error:{}", d.name()), "compiles", e, case.clone()))),
        Ok(code) => {
            let mut c2 = case.clone();
            if let Some(o) = c2.as_object_mut() {
                o.insert("compiled_hex".into(), json!(hex(&code.ser())));
                o.insert("compiled".into(), json!(disasm(&code)));
                if !o.contains_key("options") {
                    o.insert("options".into(), json!(mo.name()));
                }
            }
            match sut::run_consensus(&code, &args, RUN_COST) {
                Ok(v) if v == want => Verdict::Pass,
                Ok(v) => Verdict::Violation(Box::new(Viol::new(&format!("wrong-value:{}", d.name()), want.show(), v.show(), c2))),
                Err(m) => Verdict::Violation(Box::new(Viol::new(&format!("compiled-fails:{}", d.name()), want.show(), m, c2))),
            }
        }
    })
}

impl Prop for C01Prop {
    fn id(&self) -> &'static str {
        "C01"
    }
    fn rule(&self) -> &'static str {
        "Type-directed generator of well-scoped Chialisp programs (defun incl. recursive templates, defun-inline, defconstant, defconst, defmacro templates, let/let*/assign with hints and destructuring, lambda with captures, function names as values, &rest call tails incl. tails supplying positional parameters, (@ name pattern), nested/improper parameter lists, 0..40 parameters, nested mod, if/list/qq, value-returning operators, int/string/hex literals incl. 64-byte and zero-prefixed), rendered under each of the six modern sigils with the options the command line derives, run on 3 generated argument trees. Oracle: the harness's own call-by-value reference interpreter; whenever it yields a value the compiled CLVM run by clvmr must yield exactly that value. Plus the systematic parameter family: every flat list of 1..40 parameters and every binary parameter tree with <= 5 leaves (bare and under an (@ W ..) capture), every leaf, referenced directly, through a defun and a defun-inline whose call rebuilds the arguments, through a defun and a defun-inline that take the whole tree as one destructured parameter applied to an opaque value, and in a module with a constant and no function, in every dialect. Non-trivial: accepted by the compiler, reference value defined for at least one argument tree, and the program uses a call, inline expansion, let/assign, lambda, destructured/captured/rest parameter, macro or defconst. Distinct by hash of the rendered source + arguments."
    }
    fn assumptions(&self) -> Vec<&'static str> {
        vec![
            "clvmr is the consensus evaluator and defines operator semantics inside the reference interpreter",
            "the reference interpreter (harness/src/refint.rs) is the meaning of the source; validated against the repository's own expected outputs",
        ]
    }
    fn sections(&self, tier: Tier) -> Vec<Section> {
        vec![
            Section {
                name: "params_systematic",
                kind: SectionKind::Enum {
                    count: param_family().len() as u64 * MODERN.len() as u64,
                },
                exhaustive: true,
                what: "every position of every flat parameter list 1..40 and of every binary parameter tree <= 5 leaves (bare / under @), x 6 dialects, via direct reference, defun and defun-inline",
            },
            Section {
                name: "random",
                kind: SectionKind::Random {
                    cases: tier.pick(3_000, 5_000),
                    maxlen: 6000,
                },
                exhaustive: false,
                what: "generated programs x 6 sigils x 3 argument trees vs the reference interpreter",
            },
        ]
    }
    fn run(&self, sec: &str, input: &Input, tier: Tier, st: &mut Stats) -> Verdict {
        match (sec, input) {
            ("params_systematic", Input::Index(i)) => run_param_case(*i, MODERN, st),
            ("random", Input::Bytes(bytes)) => {
                let case = decode_case(bytes, tier, None);
                st.label("random_case");
                if case.collision {
                    return Verdict::Skip("integer literal spells a name (generator precondition)");
                }
                for f in &case.feats {
                    st.label(f);
                }
                let refs: Vec<Outcome> = case.args.iter().map(|a| reference(&case.prog, a)).collect();
                for r in &refs {
                    match r {
                        Outcome::Value(_) => st.label("ref:value"),
                        Outcome::Fails(_) => st.label("ref:fails"),
                        Outcome::Undefined(m) => {
                            st.label("ref:undefined");
                            st.label(&format!("ref:undefined:{}", m.split(' ').take(3).collect::<Vec<_>>().join("-")));
                        }
                    }
                }
                let mut defined_total = 0;
                let mut compiled_any = false;
                for d in MODERN {
                    let before = st.generator_rejects;
                    match judge_build(&case.prog, *d, ModernOpts::cli_default(d.stepping()), &case.args, &refs, st) {
                        Err(v) => return Verdict::Violation(Box::new(v)),
                        Ok(n) => {
                            if st.generator_rejects == before {
                                compiled_any = true;
                                st.label(&format!("compiled:{}", d.name()));
                            }
                            defined_total += n;
                        }
                    }
                }
                if compiled_any {
                    st.label("compiled");
                }
                if compiled_any && defined_total > 0 {
                    st.label("checked");
                    if nontrivial_feats(&case.feats) {
                        let text = render_program(&case.prog, None);
                        let mut k = text.clone().into_bytes();
                        for a in &case.args {
                            k.extend(a.ser());
                        }
                        st.nontrivial(fnv(&k));
                        st.sample(|| json!({"section": "random", "source": text, "args": case.args.iter().map(|a| a.show()).collect::<Vec<_>>(),
                                            "reference": refs.iter().map(|r| format!("{r:?}").chars().take(120).collect::<String>()).collect::<Vec<_>>(), "features": case.feats}));
                    }
                    Verdict::Pass
                } else if !compiled_any {
                    Verdict::Skip("rejected by the compiler in every dialect (counted in generator_rejects)")
                } else {
                    Verdict::Skip("reference value undefined or failing for every argument tree")
                }
            }
            _ => Verdict::Skip("unknown section"),
        }
    }
    fn replay(&self, case: &Value, _st: &mut Stats) -> Option<Verdict> {
        replay_source_case(case)
    }
    fn reduce(&self, _sec: &str, input: &Input, tier: Tier, v: &Viol) -> Option<Viol> {
        let Input::Bytes(b) = input else { return None };
        let case = decode_case(b, tier, None);
        let d = Dialect::parse(v.sig.split(':').nth(1)?)?;
        reduce_for(&case.prog, &case.args, d, ModernOpts::cli_default(d.stepping()), &v.sig)
    }
    fn known(&self, v: &Viol) -> Option<&'static str> {
        known_for_build(v)
    }
    fn describe(&self, _sec: &str, input: &Input, tier: Tier) -> Option<Value> {
        let Input::Bytes(b) = input else { return None };
        let case = decode_case(b, tier, None);
        Some(json!({"source": render_program(&case.prog, Some(Dialect::Cl23)), "args": case.args.iter().map(|a| a.show()).collect::<Vec<_>>(), "features": case.feats}))
    }
    fn sut_crash_is_violation(&self) -> bool {
        false
    }
    fn case_timeout(&self) -> (u64, bool) {
        (25, false)
    }
    fn health_floors(&self, _tier: Tier) -> Vec<(&'static str, &'static str, f64)> {
        vec![("checked", "random_case", 0.6), ("compiled", "random_case", 0.9)]
    }
}
