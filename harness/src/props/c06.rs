//! C06 — the stepping evaluator agrees with the consensus evaluator.

use crate::choices::{fnv, Choices};
use crate::core::*;
use crate::gen_clvm::*;
use crate::gen_value::*;
use crate::sut;
use chialisp::compiler::sexp::SExp;
use serde_json::{json, Value};
use std::collections::HashMap;
use std::rc::Rc;

pub struct C06Prop;
pub static C06: C06Prop = C06Prop;

const COST: u64 = 1_000_000_000;
const STEPS: usize = 5_000_000;

#[derive(Clone, Copy, Debug, PartialEq, Eq)]
pub enum Spelling {
    ConvertFixed,
    ConvertLegacy,
    PrintParse,
    HexPath,
    PerAtom,
}

impl Spelling {
    pub fn name(&self) -> &'static str {
        match self {
            Spelling::ConvertFixed => "convert_from_clvm_rs(fixed)",
            Spelling::ConvertLegacy => "convert_from_clvm_rs(legacy)",
            Spelling::PrintParse => "parse_sexp(print)",
            Spelling::HexPath => "hex_to_modern_sexp",
            Spelling::PerAtom => "per-atom random spelling",
        }
    }
    pub fn mode(&self) -> bool {
        !matches!(self, Spelling::ConvertLegacy)
    }
}

fn spell_atom_random(c: &mut Choices, b: &[u8]) -> SExp {
    let l = sut::loc();
    let canonical_int = !b.is_empty() && chialisp::util::u8_from_number(chialisp::util::number_from_u8(b)) == b;
    let mut opts: Vec<u8> = vec![1, 2, 3];
    if b.is_empty() {
        opts = vec![0, 1, 2, 3];
    }
    if canonical_int {
        opts.push(4);
    }
    // Quoted data may be run as code later.  A bareword / string *name* in operator position
    // is source syntax, not a spelling of an opcode (generator precondition, DESIGN C06), so
    // atoms whose bytes spell an operator name are only spelled numerically.
    if !b.is_empty() && chialisp::classic::clvm::keyword_to_atom(2).contains_key(&String::from_utf8_lossy(b).to_string()) {
        opts = vec![4];
    }
    match opts[c.pick(opts.len())] {
        0 => SExp::Nil(l),
        1 => SExp::Atom(l, b.to_vec()),
        2 => SExp::QuotedString(l, b'"', b.to_vec()),
        3 => SExp::QuotedString(l, b'x', b.to_vec()),
        _ => SExp::Integer(l, chialisp::util::number_from_u8(b)),
    }
}

/// per-atom random spelling; operator heads stay numeric (as the fixed-mode conversion gives them)
fn spell_code(c: &mut Choices, t: &V, as_code: bool) -> Rc<SExp> {
    let l = sut::loc();
    match t {
        V::A(b) => Rc::new(spell_atom_random(c, b)),
        V::P(h, rest) => {
            if !as_code {
                return Rc::new(SExp::Cons(l, spell_code(c, h, false), spell_code(c, rest, false)));
            }
            let head = match &**h {
                V::A(_) => sut::to_rich(h, true).unwrap_or_else(|_| Rc::new(SExp::Nil(sut::loc()))),
                V::P(_, _) => spell_code(c, h, true),
            };
            let is_quote = matches!(&**h, V::A(b) if b == &[1u8]);
            let tail = if is_quote { spell_code(c, rest, false) } else { spell_args(c, rest) };
            Rc::new(SExp::Cons(l, head, tail))
        }
    }
}

fn spell_args(c: &mut Choices, t: &V) -> Rc<SExp> {
    match t {
        V::A(b) => Rc::new(spell_atom_random(c, b)),
        V::P(a, rest) => Rc::new(SExp::Cons(sut::loc(), spell_code(c, a, true), spell_args(c, rest))),
    }
}

pub fn spell(c: &mut Choices, sp: Spelling, t: &V, as_code: bool) -> Option<Rc<SExp>> {
    let r = match sp {
        Spelling::ConvertFixed => sut::to_rich(t, true).ok()?,
        Spelling::ConvertLegacy => sut::to_rich(t, false).ok()?,
        Spelling::PrintParse => {
            let r = sut::to_rich(t, true).ok()?;
            sut::with_int_mode(true, || sut::parse_one(&r.to_string())).ok()?
        }
        Spelling::HexPath => {
            let mut a = clvmr::Allocator::new();
            chialisp::compiler::cldb::hex_to_modern_sexp(&mut a, &HashMap::new(), sut::loc(), &hex(&t.ser())).ok()?
        }
        Spelling::PerAtom => spell_code(c, t, as_code),
    };
    // the spelling must denote exactly t (checked, not assumed)
    match sut::from_rich(r.clone(), sp.mode()) {
        Ok(back) if &back == t => Some(r),
        _ => None,
    }
}

fn disasm(v: &V) -> String {
    let mut a = clvmr::Allocator::new();
    let n = v.to_node(&mut a);
    chialisp::classic::clvm_tools::binutils::disassemble(&a, n, Some(2)).chars().take(500).collect()
}

/// does the program contain, outside quoted data, a form whose operator is itself a pair?
pub fn has_pair_head(p: &V) -> bool {
    match p {
        V::A(_) => false,
        V::P(h, t) => match &**h {
            V::P(_, _) => true,
            V::A(b) => {
                if b == &[1u8] {
                    return false;
                }
                let mut cur: &V = t;
                while let V::P(x, rest) = cur {
                    if has_pair_head(x) {
                        return true;
                    }
                    cur = rest;
                }
                false
            }
        },
    }
}

pub fn judge_one(t: &V, env: &V, sp: Spelling, c: &mut Choices, st: &mut Stats) -> Result<Option<bool>, Viol> {
    let reference = sut::run_consensus(t, env, COST);
    if let Err(m) = &reference {
        if sut::is_cost_exceeded(m) {
            return Ok(None);
        }
    }
    let (Some(s), Some(e)) = (spell(c, sp, t, true), spell(c, sp, env, false)) else {
        st.label("spelling-does-not-denote-value(skip)");
        return Ok(None);
    };
    let stepped = sut::run_stepper_rich(s.clone(), e, STEPS, sp.mode());
    if let Err(m) = &stepped {
        if sut::is_step_timeout(m) {
            return Ok(None);
        }
    }
    let case = || {
        json!({"program_hex": hex(&t.ser()), "program": disasm(t), "env_hex": hex(&env.ser()), "env": env.show(),
               "spelling": sp.name(), "rich_program": format!("{s:?}").chars().take(600).collect::<String>()})
    };
    match (&reference, &stepped) {
        (Ok(a), Ok(b)) => {
            if a != b {
                return Err(Viol::new("different-value", a.show(), b.show(), case()));
            }
            Ok(Some(true))
        }
        (Err(_), Err(_)) => Ok(Some(false)),
        (Ok(a), Err(m)) => Err(Viol::new(
            &format!("stepper-fails-consensus-returns:{}", msg_class(m)),
            format!("value {}", a.show()),
            format!("failure: {}", m.chars().take(200).collect::<String>()),
            case(),
        )),
        (Err(m), Ok(b)) => Err(Viol::new(
            "stepper-returns-consensus-fails",
            format!("failure: {m}"),
            format!("value {}", b.show()),
            case(),
        )),
    }
}

/// coarse class of a stepper error message: the first words of the text after the location
fn msg_class(m: &str) -> String {
    let body = m.rsplit("}, \"").next().unwrap_or(m);
    body.split(|c: char| !c.is_ascii_alphabetic())
        .filter(|w| !w.is_empty())
        .take(3)
        .collect::<Vec<_>>()
        .join("-")
}

fn count_ops(p: &V) -> usize {
    match p {
        V::A(_) => 0,
        V::P(h, t) => {
            if matches!(&**h, V::A(b) if b == &[1u8]) {
                return 0;
            }
            let mut n = 1;
            let mut cur: &V = t;
            while let V::P(x, rest) = cur {
                n += count_ops(x);
                cur = rest;
            }
            n
        }
    }
}

impl Prop for C06Prop {
    fn id(&self) -> &'static str {
        "C06"
    }
    fn rule(&self) -> &'static str {
        "Exhaustive: every binary tree with <= 4 leaves (quick; <= 5 thorough) over {nil,1,2,3,4,5,6,7,8,9,16,17,11,0x80} as a program in 6 environments, spelled by convert_from_clvm_rs in the fixed and in the legacy integer mode. Random: value-directed G2 programs (all standard operators except softfork, paths of every width/padding class, f/r chains, re-rooting, strict/lazy if, injected failures: raise, wrong arity, improper argument lists, bad paths, unknown operators) in five rich spellings each checked to denote the program (conversion in both integer modes, print+parse, the debugger's hex path, random per-atom Integer/Atom/QuotedString/hex/Nil spelling with numeric operator heads); environments spelled the same way. Oracle: compiler::clvm::run finishes with v iff clvmr returns v (converted), and fails iff clvmr fails; step/cost limits => skip. Non-trivial: both agree on a value and the program has >= 3 operator applications, or both fail for a reason other than the outermost operator being unknown. Distinct by hash of (program, env, spelling)."
    }
    fn sections(&self, tier: Tier) -> Vec<Section> {
        let leaves = tier.pick(4, 5);
        vec![
            Section {
                name: if leaves == 4 { "small_trees_le4" } else { "small_trees_le5" },
                kind: SectionKind::Enum { count: total_trees(leaves) },
                exhaustive: true,
                what: "all binary trees with <= N leaves over a 14-atom alphabet as programs x 6 environments x 2 conversion spellings",
            },
            Section {
                name: "random",
                kind: SectionKind::Random {
                    cases: tier.pick(60_000, 1_000_000),
                    maxlen: 2400,
                },
                exhaustive: false,
                what: "value-directed G2 programs x 5 rich spellings",
            },
        ]
    }
    fn run(&self, sec: &str, input: &Input, _tier: Tier, st: &mut Stats) -> Verdict {
        match (sec, input) {
            ("small_trees_le4", Input::Index(i)) | ("small_trees_le5", Input::Index(i)) => {
                let leaves = if sec == "small_trees_le4" { 4 } else { 5 };
                let t = small_tree(*i, leaves);
                let empty: [u8; 0] = [];
                let mut nontrivial = false;
                for ei in 0..SMALL_ENVS {
                    let env = small_env(ei);
                    for sp in [Spelling::ConvertFixed, Spelling::ConvertLegacy] {
                        let mut c = Choices::new(&empty);
                        match judge_one(&t, &env, sp, &mut c, st) {
                            Err(v) => return Verdict::Violation(Box::new(v)),
                            Ok(Some(true)) => {
                                st.label("agree:value");
                                if count_ops(&t) >= 2 {
                                    nontrivial = true;
                                }
                            }
                            Ok(Some(false)) => {
                                st.label("agree:failure");
                                if matches!(&t, V::P(h, _) if table_has(h)) {
                                    nontrivial = true;
                                }
                            }
                            Ok(None) => {}
                        }
                    }
                }
                if nontrivial {
                    st.nontrivial(*i);
                    st.sample(|| json!({"section": sec, "program": disasm(&t), "checked": "6 envs x {fixed, legacy} conversion spellings"}));
                }
                Verdict::Pass
            }
            ("random", Input::Bytes(bytes)) => {
                let mut c = Choices::new(bytes);
                let g = gen_program(&mut c, 14, 2);
                st.label("random_case");
                for l in &g.labels {
                    st.label(l);
                }
                let mut any_nontrivial = false;
                for sp in [Spelling::ConvertFixed, Spelling::ConvertLegacy, Spelling::PrintParse, Spelling::HexPath, Spelling::PerAtom] {
                    match judge_one(&g.prog, &g.env, sp, &mut c, st) {
                        Err(v) => return Verdict::Violation(Box::new(v)),
                        Ok(Some(true)) => {
                            st.label("agree:value");
                            st.label(sp.name());
                            if g.ops >= 3 {
                                any_nontrivial = true;
                            }
                        }
                        Ok(Some(false)) => {
                            st.label("agree:failure");
                            st.label(sp.name());
                            if !g.labels.contains(&"fail:unknown-op") {
                                any_nontrivial = true;
                            }
                        }
                        Ok(None) => st.label("skip:limit-or-spelling"),
                    }
                }
                if any_nontrivial {
                    let mut k = g.prog.ser();
                    k.extend(g.env.ser());
                    st.nontrivial(fnv(&k));
                    st.sample(|| json!({"section": "random", "program": disasm(&g.prog), "env": g.env.show(), "consensus": format!("{:?}", sut::run_consensus(&g.prog, &g.env, COST).map(|v| v.show()))}));
                }
                Verdict::Pass
            }
            _ => Verdict::Skip("unknown section"),
        }
    }
    fn replay(&self, case: &Value, st: &mut Stats) -> Option<Verdict> {
        let p = hex::decode(case.get("program_hex")?.as_str()?).ok()?;
        let e = hex::decode(case.get("env_hex")?.as_str()?).ok()?;
        let t = sut::consensus_deserialize(&p).ok()?;
        let env = sut::consensus_deserialize(&e).ok()?;
        let spname = case.get("spelling").and_then(|s| s.as_str()).unwrap_or("");
        let empty: [u8; 0] = [];
        for sp in [Spelling::ConvertFixed, Spelling::ConvertLegacy, Spelling::PrintParse, Spelling::HexPath] {
            if spname.is_empty() || sp.name() == spname || spname == Spelling::PerAtom.name() {
                let mut c = Choices::new(&empty);
                if let Err(v) = judge_one(&t, &env, sp, &mut c, st) {
                    return Some(Verdict::Violation(Box::new(v)));
                }
            }
        }
        Some(Verdict::Pass)
    }
    fn known(&self, v: &Viol) -> Option<&'static str> {
        let p = hex::decode(v.case.get("program_hex")?.as_str()?).ok()?;
        let e = hex::decode(v.case.get("env_hex")?.as_str()?).ok()?;
        let t = sut::consensus_deserialize(&p).ok()?;
        let env = sut::consensus_deserialize(&e).ok()?;
        let spelling = v.case.get("spelling")?.as_str()?;
        if spelling == Spelling::ConvertLegacy.name() {
            // the legacy integer mode keeps the old truthiness of all-zero atoms (documented reason
            // for the cl23.1 dialect): excused only when (1) the case is spelled in legacy mode,
            // (2) an all-zero atom really occurs in the program, the environment or an
            // intermediate result of the consensus run, and (3) the same case agrees with
            // consensus in the fixed mode
            let tr = sut::consensus_trace(&t, &env, COST);
            if tr.zero_atom_seen {
                let empty: [u8; 0] = [];
                let mut c = Choices::new(&empty);
                let mut st = Stats { scratch: true, ..Default::default() };
                if judge_one(&t, &env, Spelling::ConvertFixed, &mut c, &mut st).is_ok() {
                    return Some("legacy-int-mode-zero-atom-truthiness");
                }
            }
        }
        None
    }
    fn health_floors(&self, _tier: Tier) -> Vec<(&'static str, &'static str, f64)> {
        vec![("agree:value", "random_case", 1.5)]
    }
}

fn table_has(h: &V) -> bool {
    match h {
        V::A(b) => chialisp::classic::clvm::keyword_from_atom(2).contains_key(b),
        _ => false,
    }
}
