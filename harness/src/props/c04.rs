//! C04 — the CLVM-level optimiser preserves the meaning of any CLVM it is given.

use crate::choices::{fnv, Choices};
use crate::core::*;
use crate::gen_clvm::*;
use crate::gen_value::*;
use crate::sut;
use chialisp::classic::clvm_tools::stages::stage_0::{DefaultProgramRunner, TRunProgram};
use chialisp::classic::clvm_tools::stages::stage_2::optimize::optimize_sexp;
use serde_json::{json, Value};
use std::rc::Rc;

pub struct C04Prop;
pub static C04: C04Prop = C04Prop;

const COST: u64 = 1_000_000_000;

fn optimize_classic(r: &V) -> Result<V, String> {
    let mut a = clvmr::Allocator::new();
    let n = r.to_node(&mut a);
    let runner: Rc<dyn TRunProgram> = Rc::new(DefaultProgramRunner::new());
    optimize_sexp(&mut a, n, runner)
        .map(|o| V::from_node(&a, o))
        .map_err(|e| format!("{e}"))
}

fn optimize_rich(r: &V) -> Result<V, String> {
    sut::with_int_mode(true, || {
        let rich = sut::to_rich(r, true)?;
        let mut a = clvmr::Allocator::new();
        let runner: Rc<dyn TRunProgram> = Rc::new(DefaultProgramRunner::new());
        let o = chialisp::compiler::optimize::run_optimizer(&mut a, runner, rich).map_err(|e| format!("{}: {}", e.0, e.1))?;
        sut::from_rich(o, true)
    })
}

fn disasm(v: &V) -> String {
    let mut a = clvmr::Allocator::new();
    let n = v.to_node(&mut a);
    let s = chialisp::classic::clvm_tools::binutils::disassemble(&a, n, Some(2));
    s.chars().take(600).collect()
}

/// Returns Ok(number of envs in which R evaluated to a value and R' != R), or the violation.
fn judge(r: &V, envs: &[V], st: &mut Stats) -> Result<(usize, bool), Viol> {
    let results: Vec<Result<V, String>> = envs.iter().map(|e| sut::run_consensus(r, e, COST)).collect();
    let any_ok = results.iter().any(|x| x.is_ok());
    let opt = optimize_classic(r);
    let opt_rich = optimize_rich(r);
    let mk_case = |e: &V, how: &str| {
        json!({"program_hex": hex(&r.ser()), "program": disasm(r), "env_hex": hex(&e.ser()), "env": e.show(), "optimizer_entry": how})
    };
    let mut changed = false;
    let mut ok_count = 0;
    for (how, o) in [("optimize_sexp", &opt), ("run_optimizer", &opt_rich)] {
        match o {
            Err(msg) => {
                if any_ok {
                    let i = results.iter().position(|x| x.is_ok()).unwrap();
                    return Err(Viol::new(
                        &format!("{how}:rejects-program-that-evaluates"),
                        format!("optimiser accepts; program evaluates to {}", results[i].as_ref().unwrap().show()),
                        format!("optimiser error: {}", msg.chars().take(200).collect::<String>()),
                        mk_case(&envs[i], how),
                    ));
                }
            }
            Ok(ropt) => {
                if ropt != r {
                    changed = true;
                }
                for (e, res) in envs.iter().zip(results.iter()) {
                    if let Ok(v) = res {
                        match sut::run_consensus(ropt, e, COST * 8) {
                            Ok(v2) => {
                                if &v2 != v {
                                    let mut c = mk_case(e, how);
                                    c["optimized"] = json!(disasm(ropt));
                                    return Err(Viol::new(&format!("{how}:different-value"), v.show(), v2.show(), c));
                                }
                            }
                            Err(m) => {
                                if sut::is_cost_exceeded(&m) {
                                    st.label("optimized-cost-exceeded(skip)");
                                    continue;
                                }
                                let mut c = mk_case(e, how);
                                c["optimized"] = json!(disasm(ropt));
                                return Err(Viol::new(&format!("{how}:optimized-fails"), v.show(), format!("error: {m}"), c));
                            }
                        }
                    }
                }
            }
        }
    }
    for res in &results {
        if res.is_ok() {
            ok_count += 1;
        }
    }
    Ok((ok_count, changed))
}

fn classify_rules(r: &V, ropt: &V, st: &mut Stats) {
    // coarse, shape-inferred labels of which rule family fired
    if ropt.nodes() < r.nodes() {
        st.label("rule:shrunk");
    }
    if matches!(ropt, V::A(_)) && matches!(r, V::P(_, _)) {
        st.label("rule:to-path-or-nil");
    }
    if let V::P(h, _) = ropt {
        if **h == V::A(vec![1]) {
            st.label("rule:const-fold");
        }
    }
}

impl Prop for C04Prop {
    fn id(&self) -> &'static str {
        "C04"
    }
    fn rule(&self) -> &'static str {
        "Exhaustive: every binary tree with <= 4 leaves (quick; <= 5 thorough) over the atom alphabet {nil,1,2,3,4,5,6,7,8,9,16,17,11,0x80} taken as a CLVM program, each in 6 fixed environments. Random: value-directed G2 programs (environment generated first; paths of every width/padding class incl. all-ones, top-bit-set, zero-padded; f/r chains up to 80; (a (q . X) ENV) re-rooting with arbitrary ENV expressions; strict and lazy if; cons cancellation; foldable constant sub-expressions; arithmetic, comparison, crypto operators; injected failures) in their generated environment. Oracle: if clvmr evaluates R in E to v then optimize_sexp(R) and run_optimizer(R) succeed and their outputs evaluate in E to v. Non-trivial: R evaluated to a value in at least one environment and the optimiser changed R. Distinct by hash of (program, env)."
    }
    fn sections(&self, tier: Tier) -> Vec<Section> {
        let leaves = tier.pick(4, 5);
        vec![
            Section {
                name: if leaves == 4 { "small_trees_le4" } else { "small_trees_le5" },
                kind: SectionKind::Enum { count: total_trees(leaves) },
                exhaustive: true,
                what: "all binary trees with <= N leaves over a 14-atom alphabet as programs x 6 environments",
            },
            Section {
                name: "random",
                kind: SectionKind::Random {
                    cases: tier.pick(50_000, 2_000_000),
                    maxlen: 2000,
                },
                exhaustive: false,
                what: "value-directed G2 programs in their generated environment",
            },
        ]
    }
    fn run(&self, sec: &str, input: &Input, _tier: Tier, st: &mut Stats) -> Verdict {
        match (sec, input) {
            ("small_trees_le4", Input::Index(i)) | ("small_trees_le5", Input::Index(i)) => {
                let leaves = if sec == "small_trees_le4" { 4 } else { 5 };
                let r = small_tree(*i, leaves);
                let envs: Vec<V> = (0..SMALL_ENVS).map(small_env).collect();
                match judge(&r, &envs, st) {
                    Err(v) => Verdict::Violation(Box::new(v)),
                    Ok((okc, changed)) => {
                        if okc > 0 {
                            st.label("evaluates_in_some_env");
                        }
                        if okc > 0 && changed {
                            st.nontrivial(*i);
                            st.sample(|| json!({"section": sec, "program": disasm(&r), "optimized": optimize_classic(&r).map(|o| disasm(&o)).unwrap_or_default(), "envs_with_value": okc}));
                        }
                        Verdict::Pass
                    }
                }
            }
            ("random", Input::Bytes(bytes)) => {
                let mut c = Choices::new(bytes);
                let g = gen_program(&mut c, 14, 2);
                st.label("random_case");
                for l in &g.labels {
                    st.label(l);
                }
                // generator self-check: the tracked expectation must match consensus
                let actual = sut::run_consensus(&g.prog, &g.env, COST);
                match (&g.expect, &actual) {
                    (Some(e), Ok(a)) if e == a => st.label("gen:evaluates"),
                    (None, Err(_)) => st.label("gen:fails-as-injected"),
                    (_, Err(m)) if sut::is_cost_exceeded(m) => return Verdict::Skip("cost limit"),
                    (Some(_), _) => st.label("gen:expectation-mismatch"),
                    (None, Ok(_)) => st.label("gen:injected-failure-evaluates"),
                }
                match judge(&g.prog, std::slice::from_ref(&g.env), st) {
                    Err(v) => Verdict::Violation(Box::new(v)),
                    Ok((okc, changed)) => {
                        if okc > 0 && changed {
                            if let Ok(o) = optimize_classic(&g.prog) {
                                classify_rules(&g.prog, &o, st);
                            }
                            let mut k = g.prog.ser();
                            k.extend(g.env.ser());
                            st.nontrivial(fnv(&k));
                            st.sample(|| json!({"section": "random", "program": disasm(&g.prog), "env": g.env.show(), "value": actual.as_ref().map(|v| v.show()).unwrap_or_default(), "optimized": optimize_classic(&g.prog).map(|o| disasm(&o)).unwrap_or_default()}));
                        }
                        Verdict::Pass
                    }
                }
            }
            _ => Verdict::Skip("unknown section"),
        }
    }
    fn replay(&self, case: &Value, st: &mut Stats) -> Option<Verdict> {
        let p = hex::decode(case.get("program_hex")?.as_str()?).ok()?;
        let e = hex::decode(case.get("env_hex")?.as_str()?).ok()?;
        let r = sut::consensus_deserialize(&p).ok()?;
        let env = sut::consensus_deserialize(&e).ok()?;
        Some(match judge(&r, &[env], st) {
            Err(v) => Verdict::Violation(Box::new(v)),
            Ok(_) => Verdict::Pass,
        })
    }
    fn known(&self, v: &Viol) -> Option<&'static str> {
        let p = hex::decode(v.case.get("program_hex")?.as_str()?).ok()?;
        let e = hex::decode(v.case.get("env_hex")?.as_str()?).ok()?;
        let t = sut::consensus_deserialize(&p).ok()?;
        let env = sut::consensus_deserialize(&e).ok()?;
        // excused only when the consensus run of this very case evaluates a ((X) . args) form
        if sut::consensus_trace(&t, &env, COST).pair_head_evaluated {
            return Some("pair-head-operator-form");
        }
        None
    }
    fn health_floors(&self, _tier: Tier) -> Vec<(&'static str, &'static str, f64)> {
        vec![("gen:evaluates", "random_case", 0.6)]
    }
}
