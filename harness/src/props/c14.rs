//! C14 — front ends never crash: any input yields a result or a located error.

use crate::choices::{fnv, Choices};
use crate::core::*;
use crate::gen_lisp::{render_program, Dialect, MODERN};
use crate::gen_text::*;
use crate::props::c15::check_error_location;
use crate::sut::{self, ModernOpts};
use chialisp::classic::clvm::__type_compatibility__::Stream;
use chialisp::classic::clvm_tools::cmds::launch_tool;
use chialisp::compiler::comptypes::CompilerOpts;
use serde_json::{json, Value};
use std::collections::HashMap;
use std::rc::Rc;

pub struct C14Prop;
pub static C14: C14Prop = C14Prop;

const FILE: &str = "*verif-input*.clsp";
pub const ENTRIES: &[&str] = &[
    "compile:sigil-in-text",
    "compile:forced-sigil",
    "assemble",
    "deserialize+disassemble",
    "run",
    "brun",
    "cldb",
    "preprocess",
    "dependencies",
    "unused-check",
    "repl",
];

fn run_tool(tool: &str, args: Vec<String>) -> String {
    let mut s = Stream::new(None);
    let dir = std::env::temp_dir();
    let symout = dir.join(format!("c14-{}.sym", std::process::id())).to_string_lossy().to_string();
    let mut a = vec![tool.to_string()];
    if tool == "run" {
        a.push("--symbol-output-file".into());
        a.push(symout);
    }
    a.extend(args);
    launch_tool(&mut s, &a, tool, if tool == "run" { 2 } else { 0 });
    let val = s.get_value();
    String::from_utf8_lossy(&val.data()[..s.get_length()]).to_string()
}

/// run one entry point on one input; Ok(Some(error message)) when the entry point reported an
/// error, Ok(None) when it accepted the input
pub fn exercise(entry: &str, text: &str, bytes: &[u8], forced: Dialect) -> Result<Option<String>, Viol> {
    let locate = |l: &chialisp::compiler::srcloc::Srcloc, m: &str| -> Result<(), Viol> {
        check_error_location(l, FILE, text, &HashMap::new()).map_err(|why| {
            Viol::new(
                "error-location-out-of-bounds",
                "a location inside the input, an include file or a built-in pseudo-file",
                why,
                json!({"entry_point": entry, "text": text, "error": m, "location": l.to_string()}),
            )
        })
    };
    match entry {
        "compile:sigil-in-text" => match sut::compile_lib_sym(text, false, &[], FILE) {
            Ok(_) => Ok(None),
            Err(m) => Ok(Some(m)),
        },
        "compile:forced-sigil" => match sut::compile_modern(text, forced.sigil(), ModernOpts::cli_default(forced.stepping()), FILE, &[]) {
            Ok(_) => Ok(None),
            Err((l, m)) => {
                locate(&l, &m)?;
                Ok(Some(m))
            }
        },
        "assemble" => {
            let mut a = clvmr::Allocator::new();
            match chialisp::classic::clvm_tools::binutils::assemble(&mut a, text) {
                Ok(n) => {
                    // and print it again
                    let _ = chialisp::classic::clvm_tools::binutils::disassemble(&a, n, Some(2));
                    Ok(None)
                }
                Err(e) => Ok(Some(format!("{e}"))),
            }
        }
        "deserialize+disassemble" => match sut::classic_deserialize(bytes) {
            Ok(v) => {
                let mut a = clvmr::Allocator::new();
                let n = v.to_node(&mut a);
                for ver in 0..=2 {
                    let _ = chialisp::classic::clvm_tools::binutils::disassemble(&a, n, Some(ver));
                }
                let _ = sut::to_rich(&v, true).map(|r| r.to_string());
                Ok(None)
            }
            Err(m) => Ok(Some(m)),
        },
        "run" => {
            let out = run_tool("run", vec![text.to_string()]);
            Ok(if out.contains("FAIL") || out.contains(": ") { Some(out.chars().take(80).collect()) } else { None })
        }
        "brun" => {
            let out = run_tool("brun", vec![text.to_string(), "(1 2 3)".to_string()]);
            Ok(if out.starts_with("FAIL") { Some(out.chars().take(80).collect()) } else { None })
        }
        "cldb" => {
            // cldb's input path: RunAndCompileInputData + CldbRun to the end (step cap)
            let mut a = clvmr::Allocator::new();
            let mut m = HashMap::new();
            m.insert("path_or_code".to_string(), chialisp::classic::platform::argparse::ArgumentValue::ArgString(None, text.to_string()));
            match chialisp::classic::clvm_tools::comp_input::RunAndCompileInputData::new(&mut a, &m) {
                Err(e) => Ok(Some(e)),
                Ok(p) => {
                    let mut syms = HashMap::new();
                    match p.compile_modern(&mut a, &mut syms) {
                        Err(e) => Ok(Some(e.1)),
                        Ok(prog) => {
                            let env = Rc::new(chialisp::compiler::sexp::SExp::Nil(sut::loc()));
                            let _ = crate::props::c12::trace(prog, env, vec![]);
                            Ok(None)
                        }
                    }
                }
            }
        }
        "preprocess" => {
            let out = run_tool("run", vec!["-E".to_string(), text.to_string()]);
            Ok(if out.contains(": ") { Some(out.chars().take(80).collect()) } else { None })
        }
        "dependencies" => {
            let opts: Rc<dyn CompilerOpts> = Rc::new(chialisp::compiler::compiler::DefaultCompilerOpts::new(FILE));
            match chialisp::compiler::preprocessor::gather_dependencies(opts, FILE, text) {
                Ok(_) => Ok(None),
                Err(e) => {
                    locate(&e.0, &e.1)?;
                    Ok(Some(e.1))
                }
            }
        }
        "unused-check" => {
            let opts: Rc<dyn CompilerOpts> = Rc::new(chialisp::compiler::compiler::DefaultCompilerOpts::new(FILE));
            match chialisp::classic::clvm_tools::debug::check_unused(opts, text) {
                Ok(_) => Ok(None),
                Err(e) => {
                    locate(&e.0, &e.1)?;
                    Ok(Some(e.1))
                }
            }
        }
        _ => {
            // REPL: the text line by line
            let opts: Rc<dyn CompilerOpts> = Rc::new(chialisp::compiler::compiler::DefaultCompilerOpts::new("*repl*"));
            let runner: Rc<dyn chialisp::classic::clvm_tools::stages::stage_0::TRunProgram> = Rc::new(chialisp::classic::clvm_tools::stages::stage_0::DefaultProgramRunner::new());
            let mut repl = chialisp::compiler::repl::Repl::new(opts, runner);
            let mut last_err = None;
            for line in text.lines().take(40) {
                let mut a = clvmr::Allocator::new();
                if let Err(e) = repl.process_line(&mut a, line.to_string()) {
                    last_err = Some(e.1);
                }
            }
            Ok(last_err)
        }
    }
}

pub fn gen_input(c: &mut Choices, tail: &[u8]) -> (String, &'static str) {
    let corpus = shipped_corpus();
    match c.weighted(&[10, 8, 4, 2]) {
        0 | 1 => {
            let base = if !corpus.is_empty() && c.chance(128) {
                corpus[c.pick(corpus.len())].1.clone()
            } else {
                let case = crate::props::c01::decode_case(tail, Tier::Quick, None);
                render_program(&case.prog, Some(*c.choose(&[Dialect::Classic, Dialect::Cl21, Dialect::Strict21, Dialect::Cl22, Dialect::Cl23, Dialect::Cl231, Dialect::Cl24])))
            };
            if c.chance(20) {
                // the valid text as it stands: a crash or hang on a well-formed program is this
                // property's subject too (the semantic properties leave such cases to C14)
                return (base, "unmutated");
            }
            let other = if corpus.is_empty() { String::new() } else { corpus[c.pick(corpus.len())].1.clone() };
            let (mut t, kind) = mutate(c, &base, &other);
            if c.chance(60) {
                // a second mutation
                t = mutate(c, &t, &other).0;
            }
            (t, kind)
        }
        2 => (token_soup(c), "token-soup"),
        _ => {
            let n = c.range(0, 60);
            (String::from_utf8_lossy(&c.bytes(n)).to_string(), "random-bytes")
        }
    }
}

impl Prop for C14Prop {
    fn id(&self) -> &'static str {
        "C14"
    }
    fn rule(&self) -> &'static str {
        "Inputs: single and double mutations (token deletion/duplication/swap, truncation at any offset, inserted parens/quotes/backslash/#/dot, keyword substitution, group deletion, splices, changed characters) of every shipped *.clsp/*.clvm/*.clib/*.clinc source and of generated programs under all dialects, token soup over the language's keywords and delimiters, random bytes; tab-free, nesting <= 200. Each input goes to one entry point chosen by the case (compile with the text's own sigil / a forced sigil, assemble+disassemble, deserialize+disassemble of the raw bytes, run, brun, cldb's input path stepped to the end, -E preprocessing, dependency listing, unused-argument check, REPL line by line). Oracle: no panic (caught, location recorded), no abort or stack overflow (the worker process dies: the in-flight input is the culprit), no overrun of the per-case wall clock confirmed alone; every compiler error location names the input or a built-in pseudo-file and lies within it. Non-trivial: the entry point reported an error with a message not seen before for that entry point in this shard (distinct error paths)."
    }
    fn sections(&self, tier: Tier) -> Vec<Section> {
        vec![Section {
            name: "inputs",
            kind: SectionKind::Random {
                cases: tier.pick(40_000, 400_000),
                maxlen: 700,
            },
            exhaustive: false,
            what: "mutated / soup / random inputs x one of 11 entry points",
        }]
    }
    fn run(&self, _sec: &str, input: &Input, _tier: Tier, st: &mut Stats) -> Verdict {
        let Input::Bytes(bytes) = input else {
            return Verdict::Skip("index input not used");
        };
        let mut c = Choices::new(bytes);
        let entry = ENTRIES[c.pick(ENTRIES.len())];
        let forced = *c.choose(MODERN);
        let (text, kind) = gen_input(&mut c, &bytes[bytes.len() / 2..]);
        if text.contains('\t') || max_nesting(&text) > 200 || text.len() > 8000 {
            return Verdict::Skip("tab, nesting > 200 or oversized (outside the property)");
        }
        st.label(&format!("entry:{entry}"));
        st.label(kind);
        match exercise(entry, &text, text.as_bytes(), forced) {
            Err(mut v) => {
                if let Some(o) = v.case.as_object_mut() {
                    o.insert("forced_dialect".into(), json!(forced.name()));
                }
                Verdict::Violation(Box::new(v))
            }
            Ok(None) => {
                st.label("accepted");
                Verdict::Pass
            }
            Ok(Some(msg)) => {
                st.label("rejected-with-error");
                // distinct error paths: message with digits and quoted parts stripped
                let norm: String = msg.chars().filter(|ch| !ch.is_ascii_digit()).take(40).collect();
                st.nontrivial(fnv(format!("{entry}|{norm}").as_bytes()));
                st.sample(|| json!({"entry_point": entry, "input_kind": kind, "text": text.chars().take(300).collect::<String>(), "error": msg.chars().take(120).collect::<String>()}));
                Verdict::Pass
            }
        }
    }
    fn describe(&self, _sec: &str, input: &Input, _tier: Tier) -> Option<Value> {
        let Input::Bytes(bytes) = input else { return None };
        let mut c = Choices::new(bytes);
        let entry = ENTRIES[c.pick(ENTRIES.len())];
        let forced = *c.choose(MODERN);
        let (text, kind) = gen_input(&mut c, &bytes[bytes.len() / 2..]);
        Some(json!({"source": text, "entry_point": entry, "forced_dialect": forced.name(), "input_kind": kind}))
    }
    fn replay(&self, case: &Value, _st: &mut Stats) -> Option<Verdict> {
        let text = case.get("text").or_else(|| case.get("source"))?.as_str()?;
        let entry = case.get("entry_point").and_then(|e| e.as_str()).unwrap_or("compile:sigil-in-text");
        let forced = case.get("forced_dialect").and_then(|d| d.as_str()).and_then(Dialect::parse).unwrap_or(Dialect::Cl23);
        Some(match exercise(entry, text, text.as_bytes(), forced) {
            Err(v) => Verdict::Violation(Box::new(v)),
            Ok(_) => Verdict::Pass,
        })
    }
    fn known(&self, v: &Viol) -> Option<&'static str> {
        if let Some(k) = crate::props::c15::list_location_overshoot(v) {
            return Some(k);
        }
        let text = v.case.get("text").or_else(|| v.case.get("source")).and_then(|t| t.as_str())?;
        let no_result = v.sig == "timeout" || v.sig.starts_with("abort:");
        if no_result && has_macro_mentioning_macro(text) {
            return Some("macro-expansion-that-feeds-itself-is-unbounded");
        }
        if no_result && !defs_of(text, &["defmac"]).is_empty() && has_recursive_function(text) {
            return Some("defmac-time-call-of-a-non-terminating-function-is-unbounded");
        }
        if no_result && defconst_computes_function_value(text) {
            return Some("defconst-computing-a-function-value-recompiles-the-program-without-bound");
        }
        if v.sig == "timeout" && inline_binding_blowup_shape(text) {
            return Some("assign-inline-nesting-makes-compile-time-and-output-exponential");
        }
        let entry = v.case.get("entry_point").and_then(|e| e.as_str()).unwrap_or("");
        let forced = v.case.get("forced_dialect").and_then(|e| e.as_str()).unwrap_or("");
        let symbolic = matches!(entry, "unused-check" | "repl")
            || (entry == "compile:forced-sigil" && forced == "cl22")
            || (matches!(entry, "compile:sigil-in-text" | "run" | "cldb" | "preprocess") && text.contains("*standard-cl-22*"));
        if no_result && symbolic && has_recursive_function(text) {
            return Some("symbolic-evaluation-of-recursive-functions-is-bounded-by-depth-not-work");
        }
        None
    }
    fn case_timeout(&self) -> (u64, bool) {
        (10, true)
    }
}

/// names of the macros a text defines, with the tokens of each definition after the name
fn macro_defs(text: &str) -> Vec<(String, Vec<String>)> {
    defs_of(text, &["defmac", "defmacro"])
}

/// the text defines a function that can reach itself through the functions of the text
pub fn has_recursive_function(text: &str) -> bool {
    let defs = defs_of(text, &["defun", "defun-inline"]);
    let idx = |n: &String| defs.iter().position(|(m, _)| m == n);
    (0..defs.len()).any(|start| {
        let mut seen = vec![false; defs.len()];
        let mut todo = vec![start];
        while let Some(i) = todo.pop() {
            for t in defs[i].1.iter() {
                if let Some(j) = idx(t) {
                    if j == start {
                        return true;
                    }
                    if !seen[j] {
                        seen[j] = true;
                        todo.push(j);
                    }
                }
            }
        }
        false
    })
}

/// the text has a defconst and that constant's value can involve a function value: a lambda
/// anywhere in the text's helpers, or a defined function's name inside a defconst
pub fn defconst_computes_function_value(text: &str) -> bool {
    let consts = defs_of(text, &["defconst"]);
    if consts.is_empty() {
        return false;
    }
    let funs = defs_of(text, &["defun", "defun-inline"]);
    let toks = tokenize(text);
    toks.iter().any(|t| t == "lambda") || consts.iter().any(|(_, body)| body.iter().any(|t| funs.iter().any(|(n, _)| n == t)))
}

/// an assign-inline together with at least three more binding forms (let, let*, assign*, lambda):
/// the shape whose inline copies multiply
pub fn inline_binding_blowup_shape(text: &str) -> bool {
    let toks = tokenize(text);
    let inline = toks.iter().filter(|t| t.as_str() == "assign-inline").count();
    let forms = toks.iter().filter(|t| matches!(t.as_str(), "let" | "let*" | "assign" | "assign-inline" | "assign-lambda" | "lambda")).count();
    inline >= 1 && forms >= 4
}

fn defs_of(text: &str, heads: &[&str]) -> Vec<(String, Vec<String>)> {
    let toks = tokenize(text);
    let mut out = vec![];
    let mut i = 0;
    while i + 2 < toks.len() {
        if toks[i] == "(" && heads.contains(&toks[i + 1].as_str()) {
            let name = toks[i + 2].clone();
            let mut depth = 1i32;
            let mut j = i + 3;
            let mut body = vec![];
            while j < toks.len() && depth > 0 {
                match toks[j].as_str() {
                    "(" => depth += 1,
                    ")" => depth -= 1,
                    _ => {}
                }
                if depth > 0 {
                    body.push(toks[j].clone());
                }
                j += 1;
            }
            out.push((name, body));
            i += 3;
        } else {
            i += 1;
        }
    }
    out
}

/// the text defines a macro whose definition mentions a macro of the text (itself included):
/// the only way macro expansion can feed itself
pub fn has_macro_mentioning_macro(text: &str) -> bool {
    let defs = macro_defs(text);
    defs.iter().any(|(_, body)| body.iter().any(|t| defs.iter().any(|(n, _)| n == t)))
}
