//! C05 — compilation is a pure function of source, include files and options.

use crate::choices::{fnv, Choices};
use crate::core::*;
use crate::gen_lisp::*;
use crate::gen_value::*;
use crate::props::c01::decode_case;
use crate::props::c11::normalize_gensyms;
use crate::sut::{self, ModernOpts};
use chialisp::compiler::gensym::ARGNAME_CTR;
use serde_json::{json, Value};
use std::collections::BTreeMap;
use std::process::{Command, Stdio};
use std::sync::atomic::Ordering;

pub struct C05Prop;
pub static C05: C05Prop = C05Prop;

#[derive(Clone, Debug, PartialEq)]
pub struct Out {
    pub code_hex: String,
    /// user-visible symbol entries: function entries (hash -> name, hash_arguments, hash_left_env)
    pub symbols: BTreeMap<String, String>,
}

fn user_symbols(s: &std::collections::HashMap<String, String>) -> BTreeMap<String, String> {
    // every entry is compared except the per-subtree srcloc entries' values that carry no name
    s.iter().map(|(k, v)| (k.clone(), v.clone())).collect()
}

pub fn compile_out(text: &str, d: Dialect) -> Result<Out, String> {
    compile_out_in(text, d, &[])
}

pub fn compile_out_in(text: &str, d: Dialect, search: &[String]) -> Result<Out, String> {
    sut::compile_modern(text, d.sigil(), ModernOpts::cli_default(d.stepping()), "*verif*.clsp", search)
        .map(|c| Out {
            code_hex: hex(&c.code.ser()),
            symbols: user_symbols(&c.symbols),
        })
        .map_err(|e| e.1)
}

/// compile in a fresh process (fresh hash seeds, counter 0)
pub fn compile_fresh(text: &str, d: Dialect) -> Result<Out, String> {
    compile_fresh_in(text, d, &[])
}

pub fn compile_fresh_in(text: &str, d: Dialect, search: &[String]) -> Result<Out, String> {
    let exe = std::env::current_exe().unwrap();
    let mut child = Command::new(exe)
        .arg("helper-compile-text")
        .arg(d.name())
        .args(search)
        .stdin(Stdio::piped())
        .stdout(Stdio::piped())
        .stderr(Stdio::null())
        .spawn()
        .map_err(|e| e.to_string())?;
    use std::io::{Read, Write};
    child.stdin.take().unwrap().write_all(text.as_bytes()).map_err(|e| e.to_string())?;
    let mut out = String::new();
    child.stdout.take().unwrap().read_to_string(&mut out).map_err(|e| e.to_string())?;
    let _ = child.wait();
    let v: Value = serde_json::from_str(&out).map_err(|e| format!("helper output: {e}: {}", out.chars().take(100).collect::<String>()))?;
    if let Some(e) = v.get("error").and_then(|e| e.as_str()) {
        return Err(e.to_string());
    }
    Ok(Out {
        code_hex: v["code_hex"].as_str().unwrap_or("").to_string(),
        symbols: v["symbols"].as_object().map(|o| o.iter().map(|(k, v)| (k.clone(), v.as_str().unwrap_or("").to_string())).collect()).unwrap_or_default(),
    })
}

pub fn helper_compile_text(dname: &str, search: &[String]) -> i32 {
    use std::io::Read;
    let mut text = String::new();
    std::io::stdin().read_to_string(&mut text).ok();
    let d = Dialect::parse(dname).unwrap_or(Dialect::Cl23);
    let j = match compile_out_in(&text, d, search) {
        Ok(o) => json!({"code_hex": o.code_hex, "symbols": o.symbols}),
        Err(e) => json!({"error": e}),
    };
    println!("{j}");
    0
}

#[derive(Debug, Clone)]
pub enum Op {
    CompileOther(usize, Dialect),
    CompileBad(usize),
    SetCounter(usize),
    AmbientIntMode(bool),
    Thread,
}

const BAD_TEXTS: &[&str] = &[
    "(mod (A) (include *standard-cl-23*) (defun F (X) (+ X Y_unbound)) (F A))",
    "(mod (A) (include *standard-cl-21*) (defun F (X) (+ X 1)",
    "(mod (A) (include *standard-cl-23*) (defmacro m (X) (x \"macro raises\")) (m A))",
    "(mod (A) (include *standard-cl-24*) (defconst K (x 1)) (+ A K))",
    "(mod (A) (include *standard-cl-21*) (defun-inline F (X) (F X)) (F A))",
    "(mod (A) (include *standard-cl-23.1*) (assign B (+ C 1) C (+ B 1) B))",
    ")",
];

const COUNTERS: &[usize] = &[0, 1, 8, 9, 10, 98, 99, 100, 999, 1000, 123_456, 999_999, 1_000_000, usize::MAX - 5000, usize::MAX / 2];

pub fn gen_history(c: &mut Choices) -> Vec<Op> {
    let n = c.range(0, 6);
    (0..n)
        .map(|_| match c.weighted(&[4, 3, 4, 2, 2]) {
            0 => Op::CompileOther(c.pick(4), *c.choose(MODERN)),
            1 => Op::CompileBad(c.pick(BAD_TEXTS.len())),
            2 => Op::SetCounter(*c.choose(COUNTERS)),
            3 => Op::AmbientIntMode(c.chance(128)),
            _ => Op::Thread,
        })
        .collect()
}

const OTHERS: &[&str] = &[
    "(mod (A B) (include *standard-cl-21*) (defun F (X Y) (let ((Z (+ X Y)) (W (* X Y))) (c Z W))) (F A B))",
    "(mod (A) (include *standard-cl-23*) (defun G (X) (assign Q (+ X 1) R (* Q Q) (list Q R (lambda ((& Q) Z) (+ Q Z))))) (G A))",
    "(mod (A) (defun H (X) (if X (+ X (H (- X 1))) 0)) (H A))",
    "(mod (A) (include *standard-cl-24*) (defconst K (+ 1 2)) (let* ((X K) (Y (+ X A))) (c X Y)))",
];

fn diff_desc(a: &Out, b: &Out) -> String {
    if a.code_hex != b.code_hex {
        return format!("code bytes differ ({} vs {} hex chars)", a.code_hex.len(), b.code_hex.len());
    }
    for (k, v) in &a.symbols {
        if b.symbols.get(k) != Some(v) {
            return format!("symbol entry {k} = {v:?} vs {:?}", b.symbols.get(k));
        }
    }
    for k in b.symbols.keys() {
        if !a.symbols.contains_key(k) {
            return format!("extra symbol entry {k}");
        }
    }
    "equal".into()
}

/// how many further fresh processes judge() compares with the baseline process
pub static EXTRA_FRESH: std::sync::atomic::AtomicUsize = std::sync::atomic::AtomicUsize::new(2);

/// programs of the shape that gives the cl23+ de-inliner several competing candidates: 2..3
/// functions, each a chain of 2..3 nested lets over its parameters
pub fn gen_let_functions(c: &mut Choices, d: Dialect) -> String {
    fn expr(c: &mut Choices, vars: &[String]) -> String {
        let v = |c: &mut Choices| vars[c.pick(vars.len())].clone();
        match c.pick(6) {
            0 => format!("(+ {} {})", v(c), v(c)),
            1 => format!("(- {} {})", v(c), v(c)),
            2 => format!("(* {} {})", v(c), v(c)),
            3 => format!("(logand {} {})", v(c), v(c)),
            4 => format!("(concat {} {})", v(c), v(c)),
            _ => format!("(sha256 {} {})", v(c), v(c)),
        }
    }
    fn chain(c: &mut Choices, depth: usize, vars: &mut Vec<String>, ctr: &mut usize) -> String {
        if depth == 0 {
            let n = c.range(2, 5);
            let items: Vec<String> = (0..n).map(|_| if c.chance(128) { vars[c.pick(vars.len())].clone() } else { expr(c, vars) }).collect();
            return format!("(list {})", items.join(" "));
        }
        let nb = c.range(1, 2);
        let mut binds = vec![];
        let mut new = vec![];
        for _ in 0..nb {
            *ctr += 1;
            let name = format!("V{}", *ctr);
            binds.push(format!("({name} {})", expr(c, vars)));
            new.push(name);
        }
        vars.extend(new);
        let inner = chain(c, depth - 1, vars, ctr);
        if c.chance(60) {
            format!("(let ({}) (c {} {}))", binds.join(" "), vars[c.pick(vars.len())].clone(), inner)
        } else {
            format!("(let ({}) {})", binds.join(" "), inner)
        }
    }
    let nf = c.range(2, 3);
    let mut ctr = 0usize;
    let mut out = format!("(mod (X Y Z)\n  (include {})\n", d.sigil());
    for i in 0..nf {
        let mut vars = vec!["A".to_string(), "B".to_string(), "C".to_string()];
        let depth = c.range(2, 3);
        let body = chain(c, depth, &mut vars, &mut ctr);
        out.push_str(&format!("  (defun F{i} (A B C) {body})\n"));
    }
    let calls: Vec<String> = (0..nf).map(|i| format!("(F{i} X Y Z)")).collect();
    out.push_str(&format!("  (list {})\n)\n", calls.join(" ")));
    out
}

/// include files of the same name in different directories, and threads compiling programs of
/// the other integer-mode group at the same time
pub fn judge_includes_and_threads(c: &mut Choices, st: &mut Stats) -> Result<bool, Viol> {
    let d = *c.choose(MODERN);
    let other_group: Vec<Dialect> = MODERN.iter().copied().filter(|x| x.int_fix() != d.int_fix()).collect();
    let od = *c.choose(&other_group);
    let root = tempfile::tempdir().map_err(|e| Viol::new("infra", "tempdir", e.to_string(), json!({})))?;
    let k0 = c.range(2, 9000);
    let k1 = k0 + c.range(1, 9000);
    let mut dirs = vec![];
    for (i, k) in [k0, k1].iter().enumerate() {
        let dir = root.path().join(format!("d{i}"));
        std::fs::create_dir_all(&dir).ok();
        let body = match c.pick(3) {
            0 => format!("((defconstant SHK {k}))"),
            1 => format!("((defun-inline SHF (X) (+ X {k})) (defconstant SHK {k}))"),
            _ => format!("((defun SHF (X) (* X {k})) (defconstant SHK {k}))"),
        };
        std::fs::write(dir.join("shared.clib"), body).ok();
        dirs.push(dir.to_string_lossy().to_string());
    }
    let zero = if c.chance(128) { "(concat 0x00)" } else { "(concat 0x0000 0x00)" };
    let zb = if d.stepping() >= 23 { format!("(defconst ZB {zero})") } else { format!("(defconstant ZB 0x00)") };
    let text = format!("(mod (A)\n  (include {})\n  (include shared.clib)\n  {zb}\n  (defun F (X) (let ((Y (+ X SHK))) (c Y ZB)))\n  (c ZB (c SHK (F A)))\n)\n", d.sigil());
    let ozb = if od.stepping() >= 23 { format!("(defconst ZB {zero})") } else { "(defconstant ZB 0x00)".to_string() };
    let aggressor = format!("(mod (A)\n  (include {})\n  {ozb}\n  (defun G (X) (let ((Y (* X 3))) (c Y ZB)))\n  (c ZB (G A))\n)\n", od.sigil());
    let search0 = vec![dirs[0].clone()];
    let base = match compile_fresh_in(&text, d, &search0) {
        Ok(o) => o,
        Err(e) => {
            st.reject(&format!("[{}] {}", d.name(), e.chars().take(80).collect::<String>()));
            return Ok(false);
        }
    };
    st.label(&format!("dialect:{}", d.name()));
    let case = |what: &str, o: &Out| json!({"source": text, "dialect": d.name(), "history": what, "shared_clib": [std::fs::read_to_string(format!("{}/shared.clib", dirs[0])).unwrap_or_default(), std::fs::read_to_string(format!("{}/shared.clib", dirs[1])).unwrap_or_default()],
        "detail": {"baseline_hex": base.code_hex, "other_hex": o.code_hex, "baseline_symbols": base.symbols, "other_symbols": o.symbols}});
    // (1) the same source compiled against the *other* directory first, in several orders
    let n_hist = c.range(1, 3);
    for _ in 0..n_hist {
        let order: Vec<String> = match c.pick(3) {
            0 => vec![dirs[1].clone()],
            1 => vec![dirs[1].clone(), dirs[0].clone()],
            _ => vec![dirs[0].clone(), dirs[1].clone()],
        };
        let r = compile_out_in(&text, d, &order);
        // first match in search-path order decides which file is read
        if order[0] == dirs[0] {
            if let Ok(o) = &r {
                if o.code_hex != base.code_hex {
                    return Err(Viol::new("first-match-in-search-order-not-used", "the code compiled against d0 alone", diff_desc(&base, o), case("search order d0,d1", o)));
                }
            }
        }
        st.label("history:same-name-include-elsewhere");
    }
    let here = compile_out_in(&text, d, &search0).map_err(|e| Viol::new("compile-fails-after-history", "compiles as in a fresh process", e, json!({"source": text})))?;
    if here.code_hex != base.code_hex {
        return Err(Viol::new("output-depends-on-earlier-include-of-the-same-name", "identical code", diff_desc(&base, &here), case("after compiling against the other directory", &here)));
    }
    // (2) threads: some compile the target, some an aggressor of the other integer-mode group
    let nt = c.range(2, 6);
    let rounds = 12;
    let mut handles = vec![];
    for t in 0..nt {
        let (txt, dd, sp) = if t % 2 == 0 { (text.clone(), d, search0.clone()) } else { (aggressor.clone(), od, vec![]) };
        let is_target = t % 2 == 0;
        handles.push(std::thread::Builder::new().stack_size(128 << 20).spawn(move || {
            let mut outs = vec![];
            for _ in 0..rounds {
                outs.push(compile_out_in(&txt, dd, &sp));
            }
            (is_target, outs)
        }).unwrap());
    }
    for h in handles {
        if let Ok((is_target, outs)) = h.join() {
            if !is_target {
                continue;
            }
            for o in outs {
                match o {
                    Ok(o) if o.code_hex == base.code_hex => {}
                    Ok(o) => return Err(Viol::new("concurrent-compile-of-another-dialect-changes-code", "identical code", diff_desc(&base, &o), case("threads compiling a program of the other integer-mode group at the same time", &o))),
                    Err(e) => return Err(Viol::new("concurrent-compile-fails", "compiles", e, json!({"source": text}))),
                }
            }
        }
    }
    st.label("threads:mixed-dialects");
    Ok(true)
}

/// two programs that differ only in how their code is arranged behave alike: the same value or
/// a failure in both, on eight generic argument trees, with at least one value among them or a
/// failure in both everywhere
pub fn same_behaviour_on_generic_arguments(a: &V, b: &V) -> bool {
    let argsets: Vec<V> = vec![
        nil(),
        list(vec![int(1)]),
        list(vec![int(1), int(2), int(3)]),
        list(vec![list(vec![int(1), int(2)]), int(3), list(vec![int(4), int(5), int(6)])]),
        list(vec![int(10), int(20), int(30), int(40), int(50), int(60)]),
        list(vec![V::A(vec![0x11; 32]), int(7), list(vec![int(1), int(2), int(3)]), int(0)]),
        list(vec![int(0), int(0), int(0), int(0)]),
        list(vec![list(vec![list(vec![int(9)]), int(8)]), list(vec![int(7), int(6)]), int(5), int(4), int(3)]),
    ];
    argsets.iter().all(|x| match (sut::run_consensus(a, x, 2_000_000_000), sut::run_consensus(b, x, 2_000_000_000)) {
        (Ok(p), Ok(q)) => p == q,
        (Err(_), Err(_)) => true,
        _ => false,
    })
}

pub fn judge(text: &str, d: Dialect, history: &[Op], st: &mut Stats) -> Result<bool, Viol> {
    let base = match compile_fresh(text, d) {
        Ok(o) => o,
        Err(e) => {
            st.reject(&format!("[{}] {}", d.name(), e.chars().take(80).collect::<String>()));
            return Ok(false);
        }
    };
    let case = |extra: Value| json!({"source": text, "dialect": d.name(), "history": format!("{history:?}"), "detail": extra});
    struct Held(Vec<chialisp::compiler::clvm::NewStyleIntConversion>);
    impl Drop for Held {
        fn drop(&mut self) {
            while let Some(g) = self.0.pop() {
                drop(g);
            }
        }
    }
    impl Held {
        fn push(&mut self, g: chialisp::compiler::clvm::NewStyleIntConversion) {
            self.0.push(g)
        }
        fn pop(&mut self) -> Option<chialisp::compiler::clvm::NewStyleIntConversion> {
            self.0.pop()
        }
    }
    let mut held_guards = Held(vec![]);
    // (a)/(d): the generated history in this process
    for (i, op) in history.iter().enumerate() {
        let before = sut::ambient_int_mode();
        match op {
            Op::CompileOther(k, dd) => {
                let t = OTHERS[*k];
                let _ = if t.contains("(include") { sut::compile_lib(t, false, &[]) } else { sut::compile_lib(t, true, &[]) };
                let _ = dd;
            }
            Op::CompileBad(k) => {
                let r = sut::compile_lib(BAD_TEXTS[*k], false, &[]);
                if r.is_err() {
                    st.label("history:failing-compile");
                }
            }
            Op::SetCounter(n) => {
                ARGNAME_CTR.store(*n, Ordering::SeqCst);
                st.label("history:counter-jump");
            }
            Op::AmbientIntMode(b) => {
                // as if this compile ran nested inside another dialect's compile
                held_guards.push(chialisp::compiler::clvm::NewStyleIntConversion::new(*b));
                st.label("history:ambient-mode");
                continue;
            }
            Op::Thread => {
                let t2 = text.to_string();
                let r = std::thread::Builder::new().stack_size(256 << 20).spawn(move || compile_out(&t2, d)).unwrap().join();
                match r {
                    Ok(Ok(o)) => {
                        if o != base {
                            return Err(Viol::new("thread-compile-differs-from-baseline", "identical output", diff_desc(&base, &o), case(json!({"step": i, "baseline_hex": base.code_hex, "other_hex": o.code_hex, "baseline_symbols": base.symbols, "other_symbols": o.symbols}))));
                        }
                    }
                    _ => return Err(Viol::new("thread-compile-fails", "compiles as in a fresh process", "error or panic", case(json!({"step": i})))),
                }
                st.label("history:thread");
            }
        }
        // (d) the ambient integer mode is restored by every operation, also after errors
        let after = sut::ambient_int_mode();
        if after != before {
            return Err(Viol::new("ambient-int-mode-not-restored", format!("{before}"), format!("{after}"), case(json!({"step": i, "op": format!("{op:?}")}))));
        }
    }
    let here = compile_out(text, d);
    // innermost first: each guard restores the value it found
    while let Some(g) = held_guards.pop() {
        drop(g);
    }
    match here {
        Err(e) => return Err(Viol::new("compile-fails-after-history", "compiles as in a fresh process", e, case(json!({})))),
        Ok(o) => {
            if o != base {
                return Err(Viol::new(
                    "output-depends-on-history",
                    "identical output",
                    diff_desc(&base, &o),
                    case(json!({"baseline_hex": base.code_hex, "other_hex": o.code_hex, "baseline_symbols": base.symbols, "other_symbols": o.symbols, "counter_now": ARGNAME_CTR.load(Ordering::SeqCst)})),
                ));
            }
        }
    }
    // (b) further fresh processes (fresh hash seeds)
    for k in 0..EXTRA_FRESH.load(Ordering::Relaxed) {
        match compile_fresh(text, d) {
            Ok(o) if o == base => {}
            Ok(o) => return Err(Viol::new("fresh-processes-disagree", "identical output", diff_desc(&base, &o), case(json!({"process": k, "baseline_hex": base.code_hex, "other_hex": o.code_hex, "baseline_symbols": base.symbols, "other_symbols": o.symbols})))),
            Err(e) => return Err(Viol::new("fresh-process-fails", "compiles", e, case(json!({"process": k})))),
        }
    }
    // (c) concurrent threads share the counter
    let nthreads = 2 + (fnv(text.as_bytes()) % 7) as usize;
    let mut hs = vec![];
    for _ in 0..nthreads {
        let t2 = text.to_string();
        hs.push(std::thread::Builder::new().stack_size(256 << 20).spawn(move || compile_out(&t2, d)).unwrap());
    }
    for h in hs {
        match h.join() {
            Ok(Ok(o)) if o == base => {}
            Ok(Ok(o)) => return Err(Viol::new("concurrent-compile-differs", "identical output", diff_desc(&base, &o), case(json!({"threads": nthreads, "baseline_hex": base.code_hex, "other_hex": o.code_hex, "baseline_symbols": base.symbols, "other_symbols": o.symbols})))),
            _ => return Err(Viol::new("concurrent-compile-fails", "compiles", "error or panic", case(json!({"threads": nthreads})))),
        }
    }
    st.labeln("threads", nthreads as u64);
    Ok(true)
}


impl C05Prop {
    fn finish(&self, text: &str, d: Dialect, history: &[Op], feats: &[&'static str], st: &mut Stats) -> Verdict {
        let text = text.to_string();
        let history = history.to_vec();
        struct CaseLike<'a> { feats: &'a [&'static str] }
        let case = CaseLike { feats };

        st.label(&format!("dialect:{}", d.name()));
        match judge(&text, d, &history, st) {
            Err(v) => Verdict::Violation(Box::new(v)),
            Ok(false) => Verdict::Skip("target rejected by the compiler"),
            Ok(true) => {
                st.label("checked");
                let gen_names = case.feats.iter().any(|f| matches!(*f, "let" | "let*" | "assign" | "assign-inline" | "assign-lambda" | "lambda"));
                let interesting = history.len() >= 2 && history.iter().any(|o| matches!(o, Op::CompileBad(_) | Op::SetCounter(_) | Op::AmbientIntMode(_)));
                let let_functions = case.feats.contains(&"let-functions");
                if (gen_names && interesting) || let_functions {
                    st.nontrivial(fnv(format!("{text}{history:?}").as_bytes()));
                    st.sample(|| json!({"dialect": d.name(), "history": format!("{history:?}"), "source": text}));
                }
                Verdict::Pass
            }
        }
    }

}

impl Prop for C05Prop {
    fn id(&self) -> &'static str {
        "C05"
    }
    fn rule(&self) -> &'static str {
        "Target: a C01-generator program (lets, assigns, lambdas, repeated sub-expressions, many helpers, constants) under one sigil. Baseline: its output bytes and all symbol entries compiled in a fresh process at counter 0. Then (a) a generated history in this process -- compiles of other programs in other dialects, compiles that fail in the reader / frontend / codegen / macro run / constant evaluation / inline recursion / assign cycle, jumps of the fresh-name counter to 0, digit-count boundaries, 10^6, near usize::MAX, the ambient integer mode held at either value (as inside another compile), a compile on another thread -- followed by the target; (b) two further fresh processes (fresh hash seeds); (c) 2..8 threads compiling the target concurrently (sharing the counter); (d) after every operation of the history the ambient integer mode equals what it was before. Oracle: every output equals the baseline byte for byte, symbol entries included. Second section: template programs of 2..3 functions, each a chain of 2..3 nested lets (the shape that gives the cl23+ de-inliner competing candidates), under cl23/cl23.1/cl24, compared across 6 fresh processes, an in-process compile and 2..8 threads. Non-trivial: history length >= 2 containing a failing compile, a counter jump or an ambient mode, and the target has compiler-generated names (let/assign/lambda); or a let-functions target. Third section: a target that includes shared.clib, present with different contents in two directories, compiled against one of them after the same source was compiled against the other (alone and in both search orders; the first match must win), compared with a fresh process; then 2..6 threads, half compiling the target and half a program of the other integer-mode group with a zero-byte constant evaluated at compile time, 12 rounds each, every target output equal to the baseline. Distinct by hash of source + history."
    }
    fn sections(&self, tier: Tier) -> Vec<Section> {
        vec![Section {
            name: "histories",
            kind: SectionKind::Random {
                cases: tier.pick(500, 2_500),
                maxlen: 6000,
            },
            exhaustive: false,
            what: "generated target x generated in-process history x fresh processes x concurrent threads",
        }, Section {
            name: "includes_and_threads",
            kind: SectionKind::Random {
                cases: tier.pick(150, 1_000),
                maxlen: 60,
            },
            exhaustive: false,
            what: "target including shared.clib found in one of two directories holding different files of that name: compiled after the same source was compiled against the other directory / both orders; then 2..6 threads, half compiling the target and half a program of the other integer-mode group, 12 rounds each",
        }, Section {
            name: "let_functions",
            kind: SectionKind::Random {
                cases: tier.pick(120, 1_000),
                maxlen: 200,
            },
            exhaustive: false,
            what: "2..3 functions of nested lets (several de-inlining candidates) under cl23/cl23.1/cl24: 6 fresh processes + in-process + threads must agree",
        }]
    }
    fn run(&self, _sec: &str, input: &Input, tier: Tier, st: &mut Stats) -> Verdict {
        let Input::Bytes(bytes) = input else {
            return Verdict::Skip("index input not used");
        };
        if _sec == "includes_and_threads" {
            let mut c = Choices::new(bytes);
            st.label("random_case");
            return match judge_includes_and_threads(&mut c, st) {
                Err(v) => Verdict::Violation(Box::new(v)),
                Ok(false) => Verdict::Skip("target rejected by the compiler"),
                Ok(true) => {
                    st.label("checked");
                    st.nontrivial(fnv(bytes));
                    st.sample(|| json!({"section": "includes_and_threads", "choices": hex(bytes)}));
                    Verdict::Pass
                }
            };
        }
        if _sec == "let_functions" {
            let mut c = Choices::new(bytes);
            let d = *c.choose(&[Dialect::Cl23, Dialect::Cl231, Dialect::Cl24]);
            let text = gen_let_functions(&mut c, d);
            st.label("random_case");
            st.label("target:let-functions");
            EXTRA_FRESH.store(5, Ordering::Relaxed);
            let r = self.finish(&text, d, &[], &["let", "let-functions"], st);
            EXTRA_FRESH.store(2, Ordering::Relaxed);
            return r;
        }
        let case = decode_case(bytes, tier, None);
        st.label("random_case");
        if case.collision {
            return Verdict::Skip("integer literal spells a name (generator precondition)");
        }
        let skip = bytes.len().saturating_sub(40);
        let mut c = Choices::new(&bytes[skip..]);
        let d = *c.choose(MODERN);
        let history = gen_history(&mut c);
        // bias towards what makes ordering decisions: a helper with 2..4 distinct repeated
        // sub-expressions (CSE candidates are ordered by a hash of expressions that contain
        // fresh names)
        let mut prog = case.prog.clone();
        if c.chance(110) {
            st.label("target:repeated-subexpression-helper");
            let n = c.range(2, 4);
            let pool = ["(* CA CA)", "(+ CA CB)", "(- CB CA)", "(logxor CA CB)", "(* CB 17)", "(sha256 CA CB)"];
            let mut picks: Vec<&str> = vec![];
            for _ in 0..n {
                let p = pool[c.pick(pool.len())];
                if !picks.contains(&p) {
                    picks.push(p);
                }
            }
            let twice: Vec<String> = picks.iter().map(|p| format!("{p} {p}")).collect();
            let body = format!("(list {} (if CA (c {} CB) (c CB {})))", twice.join(" "), picks[0], picks[picks.len() - 1]);
            let text_helper = format!("(defun cse_target (CA CB) {body})");
            // spliced in textually after rendering (the AST has no raw-text node)
            let rendered = render_program(&prog, Some(d));
            let insert_at = rendered.rfind("\n  ").unwrap_or(rendered.len());
            let mut t = rendered.clone();
            t.insert_str(insert_at, &format!("\n  {text_helper}"));
            // make it live: cons its result in front of the main expression
            let main_start = t.rfind("\n  ").unwrap_or(0) + 3;
            let main_expr = t[main_start..t.len() - 2].to_string();
            let new_main = format!("(c (cse_target 3 {}) {})", if c.chance(128) { "4" } else { "(q . 9)" }, main_expr);
            t.replace_range(main_start..t.len() - 2, &new_main);
            let _ = &mut prog;
            return self.finish(&t, d, &history, &case.feats, st);
        }
        let mut text = render_program(&case.prog, Some(d));
        if c.chance(60) {
            // a zero-byte constant evaluated at compile time: the value whose spelling follows
            // the integer-conversion mode
            st.label("target:zero-byte-constant");
            let helper = if d.stepping() >= 23 { "(defconst ZB_ (concat 0x00))" } else { "(defconstant ZB_ 0x00)" };
            let insert_at = text.rfind("\n  ").unwrap_or(text.len());
            text.insert_str(insert_at, &format!("\n  {helper}"));
            let main_start = text.rfind("\n  ").unwrap_or(0) + 3;
            let main_expr = text[main_start..text.len() - 2].to_string();
            text.replace_range(main_start..text.len() - 2, &format!("(c ZB_ {main_expr})"));
        }
        self.finish(&text, d, &history, &case.feats, st)
    }
    fn known(&self, v: &Viol) -> Option<&'static str> {
        let det = v.case.get("detail")?;
        let ah = det.get("baseline_hex")?.as_str()?;
        let bh = det.get("other_hex")?.as_str()?;
        if ah != bh {
            // code differs: excused only when it differs in nothing but the counter digits of a
            // leaked gensym'd name (the evaluator's com defect, C01 entry)
            let a = sut::consensus_deserialize(&hex::decode(ah).ok()?).ok()?;
            let b = sut::consensus_deserialize(&hex::decode(bh).ok()?).ok()?;
            if normalize_gensyms(&a) == normalize_gensyms(&b) {
                return Some("evaluator-com-leaks-let-bound-names");
            }
            // the leaked name may also have been *computed with* (lognot, logxor ..), which hides
            // its digits: then the only visible fact is that the code is a function of the
            // fresh-name counter and of nothing else.  Excused when the evaluator's com is in play
            // (cl22 sigil or a defconst in the source) and recompiling at one counter value gives
            // equal code twice while another counter value gives different code.
            let src = v.case.get("source").and_then(|s| s.as_str()).unwrap_or("");
            let dname = v.case.get("dialect").and_then(|d| d.as_str()).unwrap_or("");
            if dname == "cl22" || src.contains("(defconst ") {
                if let Some(d) = Dialect::parse(dname) {
                    let at = |n: usize| {
                        ARGNAME_CTR.store(n, Ordering::SeqCst);
                        compile_out(src, d).ok().map(|o| o.code_hex)
                    };
                    let (a1, a2) = (at(5000), at(5000));
                    if a1.is_some() && a1 == a2 {
                        // (the dependence can be on single digits of the name: several other values)
                        for n in [777_777usize, 0, 50, 950, 99_990, 999_990, 100, 31, 123_456] {
                            let b1 = at(n);
                            if b1.is_some() && a1 != b1 {
                                return Some("evaluator-com-leaks-let-bound-names");
                            }
                        }
                    }
                }
            }
            // cl23+ CSE groups repeated sub-expressions in a map keyed by the tree hash of the
            // (renamed) expression, so the order in which their bindings are emitted follows the
            // fresh names in force; the two programs then consist of the same atoms in another
            // arrangement.  Excused only for cl23+, equal length, equal multiset of atoms, and a
            // source that repeats a call form.
            {
                let mut xa = vec![];
                let mut xb = vec![];
                a.atoms(&mut xa);
                b.atoms(&mut xb);
                xa.sort();
                xb.sort();
                let modern_cse = matches!(v.case.get("dialect").and_then(|d| d.as_str()), Some("cl23" | "cl23.1" | "cl24"));
                let src0 = v.case.get("source").and_then(|s| s.as_str()).unwrap_or("");
                let _ = (&xa, &xb);
                if modern_cse && crate::props::c01::source_repeats_a_call(src0) && same_behaviour_on_generic_arguments(&a, &b) {
                    return Some("cl23-cse-binding-order-follows-the-fresh-names");
                }
            }
            // the entry point converts the compiler's result to bytes in the thread's ambient
            // integer mode: excused only when the dialect is a legacy-integer one, the history
            // holds the ambient mode at the legacy value, and the two outputs are equal once
            // every one-byte zero atom is read as nil
            fn zero_as_nil(v: &V) -> V {
                match v {
                    V::A(b) if b.iter().all(|x| *x == 0) => V::A(vec![]),
                    V::A(b) => V::A(b.clone()),
                    V::P(x, y) => V::P(std::rc::Rc::new(zero_as_nil(x)), std::rc::Rc::new(zero_as_nil(y))),
                }
            }
            let legacy = matches!(v.case.get("dialect").and_then(|d| d.as_str()), Some("cl21" | "strict-cl21" | "cl22" | "cl23"));
            let held_legacy = v.case.get("history").and_then(|h| h.as_str()).map(|h| h.contains("AmbientIntMode(false)")).unwrap_or(false);
            if legacy && held_legacy && zero_as_nil(&a) == zero_as_nil(&b) {
                return Some("legacy-dialect-output-is-converted-in-the-ambient-integer-mode");
            }
            return None;
        }
        // code identical: the symbol tables differ only in the counter digits inside the names
        // of synthesised helpers (letbinding_$_N, lambda_$_N) and renamed arguments
        let norm = |m: &serde_json::Map<String, Value>| -> BTreeMap<String, String> {
            m.iter()
                .map(|(k, val)| {
                    let t = val.as_str().unwrap_or("");
                    let n = normalize_gensyms(&V::A(t.as_bytes().to_vec()));
                    let V::A(nb) = n else { unreachable!() };
                    (k.clone(), String::from_utf8_lossy(&nb).to_string())
                })
                .collect()
        };
        let sa = norm(det.get("baseline_symbols")?.as_object()?);
        let sb = norm(det.get("other_symbols")?.as_object()?);
        if sa == sb {
            return Some("synthesised-symbol-names-carry-the-fresh-name-counter");
        }
        None
    }
    fn replay(&self, case: &Value, st: &mut Stats) -> Option<Verdict> {
        let src = case.get("source")?.as_str()?;
        let d = Dialect::parse(case.get("dialect")?.as_str()?)?;
        // the replayed history: counter jumps (the only state a replay needs to reproduce)
        let hist = vec![Op::SetCounter(1_000_000), Op::CompileBad(0), Op::SetCounter(9)];
        let n = case.get("fresh_processes").and_then(|n| n.as_u64()).unwrap_or(2) as usize;
        // a replay about hash seeding compares processes only (no counter jumps, whose effect on
        // synthesised symbol names is a separate, listed finding)
        let hist = if case.get("fresh_processes").is_some() { vec![] } else { hist };
        // a replay about the ambient integer mode holds it at the given value
        let hist = match case.get("ambient_int_mode").and_then(|b| b.as_bool()) {
            Some(b) => vec![Op::AmbientIntMode(b)],
            None => hist,
        };
        EXTRA_FRESH.store(n, Ordering::Relaxed);
        Some(match judge(src, d, &hist, st) {
            Err(v) => Verdict::Violation(Box::new(v)),
            Ok(_) => Verdict::Pass,
        })
    }
    fn sut_crash_is_violation(&self) -> bool {
        false
    }
    fn case_timeout(&self) -> (u64, bool) {
        (90, false)
    }
    fn health_floors(&self, _tier: Tier) -> Vec<(&'static str, &'static str, f64)> {
        vec![("checked", "random_case", 0.5)]
    }
}
