//! C05 — compilation is a pure function of source, include files and options.

use crate::choices::{fnv, Choices};
use crate::core::*;
use crate::gen_lisp::*;
use crate::gen_value::*;
use crate::props::c01::decode_case;
use crate::props::c11::normalize_gensyms;
use crate::sut::{self, ModernOpts};
use chialisp::compiler::gensym::ARGNAME_CTR;
use serde_json::{json, Value};
use std::collections::BTreeMap;
use std::process::{Command, Stdio};
use std::sync::atomic::Ordering;

pub struct C05Prop;
pub static C05: C05Prop = C05Prop;

#[derive(Clone, Debug, PartialEq)]
pub struct Out {
    pub code_hex: String,
    /// user-visible symbol entries: function entries (hash -> name, hash_arguments, hash_left_env)
    pub symbols: BTreeMap<String, String>,
}

fn user_symbols(s: &std::collections::HashMap<String, String>) -> BTreeMap<String, String> {
    // every entry is compared except the per-subtree srcloc entries' values that carry no name
    s.iter().map(|(k, v)| (k.clone(), v.clone())).collect()
}

pub fn compile_out(text: &str, d: Dialect) -> Result<Out, String> {
    sut::compile_modern(text, d.sigil(), ModernOpts::cli_default(d.stepping()), "*verif*.clsp", &[])
        .map(|c| Out {
            code_hex: hex(&c.code.ser()),
            symbols: user_symbols(&c.symbols),
        })
        .map_err(|e| e.1)
}

/// compile in a fresh process (fresh hash seeds, counter 0)
pub fn compile_fresh(text: &str, d: Dialect) -> Result<Out, String> {
    let exe = std::env::current_exe().unwrap();
    let mut child = Command::new(exe)
        .arg("helper-compile-text")
        .arg(d.name())
        .stdin(Stdio::piped())
        .stdout(Stdio::piped())
        .stderr(Stdio::null())
        .spawn()
        .map_err(|e| e.to_string())?;
    use std::io::{Read, Write};
    child.stdin.take().unwrap().write_all(text.as_bytes()).map_err(|e| e.to_string())?;
    let mut out = String::new();
    child.stdout.take().unwrap().read_to_string(&mut out).map_err(|e| e.to_string())?;
    let _ = child.wait();
    let v: Value = serde_json::from_str(&out).map_err(|e| format!("helper output: {e}: {}", out.chars().take(100).collect::<String>()))?;
    if let Some(e) = v.get("error").and_then(|e| e.as_str()) {
        return Err(e.to_string());
    }
    Ok(Out {
        code_hex: v["code_hex"].as_str().unwrap_or("").to_string(),
        symbols: v["symbols"].as_object().map(|o| o.iter().map(|(k, v)| (k.clone(), v.as_str().unwrap_or("").to_string())).collect()).unwrap_or_default(),
    })
}

pub fn helper_compile_text(dname: &str) -> i32 {
    use std::io::Read;
    let mut text = String::new();
    std::io::stdin().read_to_string(&mut text).ok();
    let d = Dialect::parse(dname).unwrap_or(Dialect::Cl23);
    let j = match compile_out(&text, d) {
        Ok(o) => json!({"code_hex": o.code_hex, "symbols": o.symbols}),
        Err(e) => json!({"error": e}),
    };
    println!("{j}");
    0
}

#[derive(Debug, Clone)]
pub enum Op {
    CompileOther(usize, Dialect),
    CompileBad(usize),
    SetCounter(usize),
    AmbientIntMode(bool),
    Thread,
}

const BAD_TEXTS: &[&str] = &[
    "(mod (A) (include *standard-cl-23*) (defun F (X) (+ X Y_unbound)) (F A))",
    "(mod (A) (include *standard-cl-21*) (defun F (X) (+ X 1)",
    "(mod (A) (include *standard-cl-23*) (defmacro m (X) (x \"macro raises\")) (m A))",
    "(mod (A) (include *standard-cl-24*) (defconst K (x 1)) (+ A K))",
    "(mod (A) (include *standard-cl-21*) (defun-inline F (X) (F X)) (F A))",
    "(mod (A) (include *standard-cl-23.1*) (assign B (+ C 1) C (+ B 1) B))",
    ")",
];

const COUNTERS: &[usize] = &[0, 1, 8, 9, 10, 98, 99, 100, 999, 1000, 123_456, 999_999, 1_000_000, usize::MAX - 5000, usize::MAX / 2];

pub fn gen_history(c: &mut Choices) -> Vec<Op> {
    let n = c.range(0, 6);
    (0..n)
        .map(|_| match c.weighted(&[4, 3, 4, 2, 2]) {
            0 => Op::CompileOther(c.pick(4), *c.choose(MODERN)),
            1 => Op::CompileBad(c.pick(BAD_TEXTS.len())),
            2 => Op::SetCounter(*c.choose(COUNTERS)),
            3 => Op::AmbientIntMode(c.chance(128)),
            _ => Op::Thread,
        })
        .collect()
}

const OTHERS: &[&str] = &[
    "(mod (A B) (include *standard-cl-21*) (defun F (X Y) (let ((Z (+ X Y)) (W (* X Y))) (c Z W))) (F A B))",
    "(mod (A) (include *standard-cl-23*) (defun G (X) (assign Q (+ X 1) R (* Q Q) (list Q R (lambda ((& Q) Z) (+ Q Z))))) (G A))",
    "(mod (A) (defun H (X) (if X (+ X (H (- X 1))) 0)) (H A))",
    "(mod (A) (include *standard-cl-24*) (defconst K (+ 1 2)) (let* ((X K) (Y (+ X A))) (c X Y)))",
];

fn diff_desc(a: &Out, b: &Out) -> String {
    if a.code_hex != b.code_hex {
        return format!("code bytes differ ({} vs {} hex chars)", a.code_hex.len(), b.code_hex.len());
    }
    for (k, v) in &a.symbols {
        if b.symbols.get(k) != Some(v) {
            return format!("symbol entry {k} = {v:?} vs {:?}", b.symbols.get(k));
        }
    }
    for k in b.symbols.keys() {
        if !a.symbols.contains_key(k) {
            return format!("extra symbol entry {k}");
        }
    }
    "equal".into()
}

/// how many further fresh processes judge() compares with the baseline process
pub static EXTRA_FRESH: std::sync::atomic::AtomicUsize = std::sync::atomic::AtomicUsize::new(2);

/// programs of the shape that gives the cl23+ de-inliner several competing candidates: 2..3
/// functions, each a chain of 2..3 nested lets over its parameters
pub fn gen_let_functions(c: &mut Choices, d: Dialect) -> String {
    fn expr(c: &mut Choices, vars: &[String]) -> String {
        let v = |c: &mut Choices| vars[c.pick(vars.len())].clone();
        match c.pick(6) {
            0 => format!("(+ {} {})", v(c), v(c)),
            1 => format!("(- {} {})", v(c), v(c)),
            2 => format!("(* {} {})", v(c), v(c)),
            3 => format!("(logand {} {})", v(c), v(c)),
            4 => format!("(concat {} {})", v(c), v(c)),
            _ => format!("(sha256 {} {})", v(c), v(c)),
        }
    }
    fn chain(c: &mut Choices, depth: usize, vars: &mut Vec<String>, ctr: &mut usize) -> String {
        if depth == 0 {
            let n = c.range(2, 5);
            let items: Vec<String> = (0..n).map(|_| if c.chance(128) { vars[c.pick(vars.len())].clone() } else { expr(c, vars) }).collect();
            return format!("(list {})", items.join(" "));
        }
        let nb = c.range(1, 2);
        let mut binds = vec![];
        let mut new = vec![];
        for _ in 0..nb {
            *ctr += 1;
            let name = format!("V{}", *ctr);
            binds.push(format!("({name} {})", expr(c, vars)));
            new.push(name);
        }
        vars.extend(new);
        let inner = chain(c, depth - 1, vars, ctr);
        if c.chance(60) {
            format!("(let ({}) (c {} {}))", binds.join(" "), vars[c.pick(vars.len())].clone(), inner)
        } else {
            format!("(let ({}) {})", binds.join(" "), inner)
        }
    }
    let nf = c.range(2, 3);
    let mut ctr = 0usize;
    let mut out = format!("(mod (X Y Z)\n  (include {})\n", d.sigil());
    for i in 0..nf {
        let mut vars = vec!["A".to_string(), "B".to_string(), "C".to_string()];
        let depth = c.range(2, 3);
        let body = chain(c, depth, &mut vars, &mut ctr);
        out.push_str(&format!("  (defun F{i} (A B C) {body})\n"));
    }
    let calls: Vec<String> = (0..nf).map(|i| format!("(F{i} X Y Z)")).collect();
    out.push_str(&format!("  (list {})\n)\n", calls.join(" ")));
    out
}

pub fn judge(text: &str, d: Dialect, history: &[Op], st: &mut Stats) -> Result<bool, Viol> {
    let base = match compile_fresh(text, d) {
        Ok(o) => o,
        Err(e) => {
            st.reject(&format!("[{}] {}", d.name(), e.chars().take(80).collect::<String>()));
            return Ok(false);
        }
    };
    let case = |extra: Value| json!({"source": text, "dialect": d.name(), "history": format!("{history:?}"), "detail": extra});
    let mut held_guards: Vec<chialisp::compiler::clvm::NewStyleIntConversion> = vec![];
    // (a)/(d): the generated history in this process
    for (i, op) in history.iter().enumerate() {
        let before = sut::ambient_int_mode();
        match op {
            Op::CompileOther(k, dd) => {
                let t = OTHERS[*k];
                let _ = if t.contains("(include") { sut::compile_lib(t, false, &[]) } else { sut::compile_lib(t, true, &[]) };
                let _ = dd;
            }
            Op::CompileBad(k) => {
                let r = sut::compile_lib(BAD_TEXTS[*k], false, &[]);
                if r.is_err() {
                    st.label("history:failing-compile");
                }
            }
            Op::SetCounter(n) => {
                ARGNAME_CTR.store(*n, Ordering::SeqCst);
                st.label("history:counter-jump");
            }
            Op::AmbientIntMode(b) => {
                // as if this compile ran nested inside another dialect's compile
                held_guards.push(chialisp::compiler::clvm::NewStyleIntConversion::new(*b));
                st.label("history:ambient-mode");
                continue;
            }
            Op::Thread => {
                let t2 = text.to_string();
                let r = std::thread::Builder::new().stack_size(256 << 20).spawn(move || compile_out(&t2, d)).unwrap().join();
                match r {
                    Ok(Ok(o)) => {
                        if o != base {
                            return Err(Viol::new("thread-compile-differs-from-baseline", "identical output", diff_desc(&base, &o), case(json!({"step": i, "baseline_hex": base.code_hex, "other_hex": o.code_hex, "baseline_symbols": base.symbols, "other_symbols": o.symbols}))));
                        }
                    }
                    _ => return Err(Viol::new("thread-compile-fails", "compiles as in a fresh process", "error or panic", case(json!({"step": i})))),
                }
                st.label("history:thread");
            }
        }
        // (d) the ambient integer mode is restored by every operation, also after errors
        let after = sut::ambient_int_mode();
        if after != before {
            return Err(Viol::new("ambient-int-mode-not-restored", format!("{before}"), format!("{after}"), case(json!({"step": i, "op": format!("{op:?}")}))));
        }
    }
    let here = compile_out(text, d);
    drop(held_guards);
    match here {
        Err(e) => return Err(Viol::new("compile-fails-after-history", "compiles as in a fresh process", e, case(json!({})))),
        Ok(o) => {
            if o != base {
                return Err(Viol::new(
                    "output-depends-on-history",
                    "identical output",
                    diff_desc(&base, &o),
                    case(json!({"baseline_hex": base.code_hex, "other_hex": o.code_hex, "baseline_symbols": base.symbols, "other_symbols": o.symbols, "counter_now": ARGNAME_CTR.load(Ordering::SeqCst)})),
                ));
            }
        }
    }
    // (b) further fresh processes (fresh hash seeds)
    for k in 0..EXTRA_FRESH.load(Ordering::Relaxed) {
        match compile_fresh(text, d) {
            Ok(o) if o == base => {}
            Ok(o) => return Err(Viol::new("fresh-processes-disagree", "identical output", diff_desc(&base, &o), case(json!({"process": k, "baseline_hex": base.code_hex, "other_hex": o.code_hex, "baseline_symbols": base.symbols, "other_symbols": o.symbols})))),
            Err(e) => return Err(Viol::new("fresh-process-fails", "compiles", e, case(json!({"process": k})))),
        }
    }
    // (c) concurrent threads share the counter
    let nthreads = 2 + (fnv(text.as_bytes()) % 7) as usize;
    let mut hs = vec![];
    for _ in 0..nthreads {
        let t2 = text.to_string();
        hs.push(std::thread::Builder::new().stack_size(256 << 20).spawn(move || compile_out(&t2, d)).unwrap());
    }
    for h in hs {
        match h.join() {
            Ok(Ok(o)) if o == base => {}
            Ok(Ok(o)) => return Err(Viol::new("concurrent-compile-differs", "identical output", diff_desc(&base, &o), case(json!({"threads": nthreads, "baseline_hex": base.code_hex, "other_hex": o.code_hex, "baseline_symbols": base.symbols, "other_symbols": o.symbols})))),
            _ => return Err(Viol::new("concurrent-compile-fails", "compiles", "error or panic", case(json!({"threads": nthreads})))),
        }
    }
    st.labeln("threads", nthreads as u64);
    Ok(true)
}


impl C05Prop {
    fn finish(&self, text: &str, d: Dialect, history: &[Op], feats: &[&'static str], st: &mut Stats) -> Verdict {
        let text = text.to_string();
        let history = history.to_vec();
        struct CaseLike<'a> { feats: &'a [&'static str] }
        let case = CaseLike { feats };

        st.label(&format!("dialect:{}", d.name()));
        match judge(&text, d, &history, st) {
            Err(v) => Verdict::Violation(Box::new(v)),
            Ok(false) => Verdict::Skip("target rejected by the compiler"),
            Ok(true) => {
                st.label("checked");
                let gen_names = case.feats.iter().any(|f| matches!(*f, "let" | "let*" | "assign" | "assign-inline" | "assign-lambda" | "lambda"));
                let interesting = history.len() >= 2 && history.iter().any(|o| matches!(o, Op::CompileBad(_) | Op::SetCounter(_) | Op::AmbientIntMode(_)));
                let let_functions = case.feats.contains(&"let-functions");
                if (gen_names && interesting) || let_functions {
                    st.nontrivial(fnv(format!("{text}{history:?}").as_bytes()));
                    st.sample(|| json!({"dialect": d.name(), "history": format!("{history:?}"), "source": text}));
                }
                Verdict::Pass
            }
        }
    }

}

impl Prop for C05Prop {
    fn id(&self) -> &'static str {
        "C05"
    }
    fn rule(&self) -> &'static str {
        "Target: a C01-generator program (lets, assigns, lambdas, repeated sub-expressions, many helpers, constants) under one sigil. Baseline: its output bytes and all symbol entries compiled in a fresh process at counter 0. Then (a) a generated history in this process -- compiles of other programs in other dialects, compiles that fail in the reader / frontend / codegen / macro run / constant evaluation / inline recursion / assign cycle, jumps of the fresh-name counter to 0, digit-count boundaries, 10^6, near usize::MAX, the ambient integer mode held at either value (as inside another compile), a compile on another thread -- followed by the target; (b) two further fresh processes (fresh hash seeds); (c) 2..8 threads compiling the target concurrently (sharing the counter); (d) after every operation of the history the ambient integer mode equals what it was before. Oracle: every output equals the baseline byte for byte, symbol entries included. Second section: template programs of 2..3 functions, each a chain of 2..3 nested lets (the shape that gives the cl23+ de-inliner competing candidates), under cl23/cl23.1/cl24, compared across 6 fresh processes, an in-process compile and 2..8 threads. Non-trivial: history length >= 2 containing a failing compile, a counter jump or an ambient mode, and the target has compiler-generated names (let/assign/lambda); or a let-functions target. Distinct by hash of source + history."
    }
    fn sections(&self, tier: Tier) -> Vec<Section> {
        vec![Section {
            name: "histories",
            kind: SectionKind::Random {
                cases: tier.pick(500, 10_000),
                maxlen: 6000,
            },
            exhaustive: false,
            what: "generated target x generated in-process history x fresh processes x concurrent threads",
        }, Section {
            name: "let_functions",
            kind: SectionKind::Random {
                cases: tier.pick(120, 3_000),
                maxlen: 200,
            },
            exhaustive: false,
            what: "2..3 functions of nested lets (several de-inlining candidates) under cl23/cl23.1/cl24: 6 fresh processes + in-process + threads must agree",
        }]
    }
    fn run(&self, _sec: &str, input: &Input, tier: Tier, st: &mut Stats) -> Verdict {
        let Input::Bytes(bytes) = input else {
            return Verdict::Skip("index input not used");
        };
        if _sec == "let_functions" {
            let mut c = Choices::new(bytes);
            let d = *c.choose(&[Dialect::Cl23, Dialect::Cl231, Dialect::Cl24]);
            let text = gen_let_functions(&mut c, d);
            st.label("random_case");
            st.label("target:let-functions");
            EXTRA_FRESH.store(5, Ordering::Relaxed);
            let r = self.finish(&text, d, &[], &["let", "let-functions"], st);
            EXTRA_FRESH.store(2, Ordering::Relaxed);
            return r;
        }
        let case = decode_case(bytes, tier, None);
        st.label("random_case");
        if case.collision {
            return Verdict::Skip("integer literal spells a name (generator precondition)");
        }
        let skip = bytes.len().saturating_sub(40);
        let mut c = Choices::new(&bytes[skip..]);
        let d = *c.choose(MODERN);
        let history = gen_history(&mut c);
        // bias towards what makes ordering decisions: a helper with 2..4 distinct repeated
        // sub-expressions (CSE candidates are ordered by a hash of expressions that contain
        // fresh names)
        let mut prog = case.prog.clone();
        if c.chance(110) {
            st.label("target:repeated-subexpression-helper");
            let n = c.range(2, 4);
            let pool = ["(* CA CA)", "(+ CA CB)", "(- CB CA)", "(logxor CA CB)", "(* CB 17)", "(sha256 CA CB)"];
            let mut picks: Vec<&str> = vec![];
            for _ in 0..n {
                let p = pool[c.pick(pool.len())];
                if !picks.contains(&p) {
                    picks.push(p);
                }
            }
            let twice: Vec<String> = picks.iter().map(|p| format!("{p} {p}")).collect();
            let body = format!("(list {} (if CA (c {} CB) (c CB {})))", twice.join(" "), picks[0], picks[picks.len() - 1]);
            let text_helper = format!("(defun cse_target (CA CB) {body})");
            // spliced in textually after rendering (the AST has no raw-text node)
            let rendered = render_program(&prog, Some(d));
            let insert_at = rendered.rfind("\n  ").unwrap_or(rendered.len());
            let mut t = rendered.clone();
            t.insert_str(insert_at, &format!("\n  {text_helper}"));
            // make it live: cons its result in front of the main expression
            let main_start = t.rfind("\n  ").unwrap_or(0) + 3;
            let main_expr = t[main_start..t.len() - 2].to_string();
            let new_main = format!("(c (cse_target 3 {}) {})", if c.chance(128) { "4" } else { "(q . 9)" }, main_expr);
            t.replace_range(main_start..t.len() - 2, &new_main);
            let _ = &mut prog;
            return self.finish(&t, d, &history, &case.feats, st);
        }
        let text = render_program(&case.prog, Some(d));
        self.finish(&text, d, &history, &case.feats, st)
    }
    fn known(&self, v: &Viol) -> Option<&'static str> {
        let det = v.case.get("detail")?;
        let ah = det.get("baseline_hex")?.as_str()?;
        let bh = det.get("other_hex")?.as_str()?;
        if ah != bh {
            // code differs: excused only when it differs in nothing but the counter digits of a
            // leaked gensym'd name (the evaluator's com defect, C01 entry)
            let a = sut::consensus_deserialize(&hex::decode(ah).ok()?).ok()?;
            let b = sut::consensus_deserialize(&hex::decode(bh).ok()?).ok()?;
            if normalize_gensyms(&a) == normalize_gensyms(&b) {
                return Some("evaluator-com-leaks-let-bound-names");
            }
            return None;
        }
        // code identical: the symbol tables differ only in the counter digits inside the names
        // of synthesised helpers (letbinding_$_N, lambda_$_N) and renamed arguments
        let norm = |m: &serde_json::Map<String, Value>| -> BTreeMap<String, String> {
            m.iter()
                .map(|(k, val)| {
                    let t = val.as_str().unwrap_or("");
                    let n = normalize_gensyms(&V::A(t.as_bytes().to_vec()));
                    let V::A(nb) = n else { unreachable!() };
                    (k.clone(), String::from_utf8_lossy(&nb).to_string())
                })
                .collect()
        };
        let sa = norm(det.get("baseline_symbols")?.as_object()?);
        let sb = norm(det.get("other_symbols")?.as_object()?);
        if sa == sb {
            return Some("synthesised-symbol-names-carry-the-fresh-name-counter");
        }
        None
    }
    fn replay(&self, case: &Value, st: &mut Stats) -> Option<Verdict> {
        let src = case.get("source")?.as_str()?;
        let d = Dialect::parse(case.get("dialect")?.as_str()?)?;
        // the replayed history: counter jumps (the only state a replay needs to reproduce)
        let hist = vec![Op::SetCounter(1_000_000), Op::CompileBad(0), Op::SetCounter(9)];
        let n = case.get("fresh_processes").and_then(|n| n.as_u64()).unwrap_or(2) as usize;
        // a replay about hash seeding compares processes only (no counter jumps, whose effect on
        // synthesised symbol names is a separate, listed finding)
        let hist = if case.get("fresh_processes").is_some() { vec![] } else { hist };
        EXTRA_FRESH.store(n, Ordering::Relaxed);
        Some(match judge(src, d, &hist, st) {
            Err(v) => Verdict::Violation(Box::new(v)),
            Ok(_) => Verdict::Pass,
        })
    }
    fn case_timeout(&self) -> (u64, bool) {
        (90, false)
    }
    fn health_floors(&self, _tier: Tier) -> Vec<(&'static str, &'static str, f64)> {
        vec![("checked", "random_case", 0.5)]
    }
}
