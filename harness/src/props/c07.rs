//! C07 — rich values <-> CLVM values are lossless; hashes agree; equality/Hash follow encodings.

use crate::choices::{fnv, Choices};
use crate::core::*;
use crate::gen_value::*;
use crate::sut;
use chialisp::compiler::sexp::SExp;
use serde_json::json;
use std::hash::{Hash, Hasher};
use std::rc::Rc;

pub struct C07Prop;
pub static C07: C07Prop = C07Prop;

const STRIDE3: u64 = 61; // quick-tier stride through the 2^24 three-byte atoms

fn risky(b: &[u8]) -> bool {
    b.is_empty()
        || b == [0]
        || (b.len() >= 2 && ((b[0] == 0 && b[1] & 0x80 == 0) || (b[0] == 0xff && b[1] & 0x80 != 0)))
        || b[0] == 0
        || b[0] & 0x80 != 0
}

fn std_hash(r: &SExp) -> u64 {
    #[allow(deprecated)]
    let mut h = std::hash::SipHasher::new_with_keys(0x0123456789abcdef, 0xfedcba9876543210);
    r.hash(&mut h);
    h.finish()
}

/// clause (1) and (2) for one tree in one mode
fn check_convert_hash(t: &V, mode: bool) -> Result<(), Viol> {
    let modename = if mode { "fixed" } else { "legacy" };
    let case = || json!({"value": t.show(), "hex": hex(&t.ser()), "int_mode": modename});
    let rich = sut::to_rich(t, mode).map_err(|e| Viol::new("convert_from:error", "Ok", e, case()))?;
    let back = sut::from_rich(rich.clone(), mode).map_err(|e| Viol::new("convert_to:error", "Ok", e, case()))?;
    if &back != t {
        return Err(Viol::new(
            &format!("roundtrip:{modename}"),
            t.show(),
            format!("{} via rich {:?}", back.show(), rich),
            case(),
        ));
    }
    let want = t.treehash();
    let modern = sut::with_int_mode(mode, || chialisp::compiler::clvm::sha256tree(rich.clone()));
    if modern != want {
        return Err(Viol::new(
            &format!("hash:modern:{modename}"),
            hex(&want),
            format!("{} for rich {:?}", hex(&modern), rich),
            case(),
        ));
    }
    let classic = {
        let mut a = clvmr::Allocator::new();
        let n = t.to_node(&mut a);
        chialisp::classic::clvm_tools::sha256tree::sha256tree(&mut a, n).data().clone()
    };
    if classic != want {
        return Err(Viol::new("hash:classic", hex(&want), hex(&classic), case()));
    }
    let cons = sut::consensus_treehash(t);
    if cons != want {
        return Err(Viol::new("hash:harness-vs-consensus", hex(&cons), hex(&want), case()));
    }
    Ok(())
}

/// one spelling of an atom that the modern reader reads to (supposedly) those bytes
fn spell_atom(c: &mut Choices, b: &[u8]) -> String {
    let canonical_int = !b.is_empty() && {
        let n = chialisp::util::number_from_u8(b);
        chialisp::util::u8_from_number(n) == b
    };
    let printable = !b.is_empty() && b.iter().all(|ch| *ch >= 32 && *ch <= 126 && *ch != b'"' && *ch != b'\\');
    let mut opts: Vec<u8> = vec![0]; // hex
    if b.is_empty() {
        opts = vec![3, 4, 5, 0];
    }
    if canonical_int {
        opts.push(1);
    }
    if printable {
        opts.push(2);
    }
    match opts[c.pick(opts.len())] {
        0 => format!("0x{}", hex(b)),
        1 => chialisp::util::number_from_u8(b).to_string(),
        2 => format!("\"{}\"", String::from_utf8_lossy(b)),
        3 => "()".to_string(),
        4 => "0".to_string(),
        _ => "\"\"".to_string(),
    }
}

fn spell_tree(c: &mut Choices, t: &V) -> String {
    match t {
        V::A(b) => spell_atom(c, b),
        V::P(l, r) => format!("({} . {})", spell_tree(c, l), spell_tree(c, r)),
    }
}

/// near-miss variant of an atom: same number different width, nil spellings, or unchanged
fn near_miss(c: &mut Choices, b: &[u8]) -> Vec<u8> {
    match c.pick(6) {
        0 => b.to_vec(),
        1 => {
            let mut v = vec![0u8];
            v.extend_from_slice(b);
            v
        }
        2 => {
            let mut v = vec![0xffu8];
            v.extend_from_slice(b);
            v
        }
        3 => {
            if b.len() > 1 {
                b[1..].to_vec()
            } else {
                vec![]
            }
        }
        4 => {
            if b.is_empty() {
                vec![0]
            } else {
                vec![]
            }
        }
        _ => {
            let mut v = b.to_vec();
            if let Some(x) = v.last_mut() {
                *x ^= 1;
            }
            v
        }
    }
}

fn mutate_one_atom(c: &mut Choices, t: &V, target: &mut i64) -> V {
    match t {
        V::A(b) => {
            *target -= 1;
            if *target == -1 {
                V::A(near_miss(c, b))
            } else {
                t.clone()
            }
        }
        V::P(l, r) => {
            let l2 = mutate_one_atom(c, l, target);
            let r2 = mutate_one_atom(c, r, target);
            V::P(Rc::new(l2), Rc::new(r2))
        }
    }
}

impl Prop for C07Prop {
    fn id(&self) -> &'static str {
        "C07"
    }
    fn rule(&self) -> &'static str {
        "Generated: every atom of length 0..2 (and length 3: stride-sampled in quick, complete in thorough) alone and as both members of a pair; proptest-generated trees over the G1 atom classes and shapes; near-miss pairs of trees for the equality clause, each member obtained by conversion or by parsing a generated spelling. Each case checks, in both integer modes, convert_to(convert_from(t)) == t and modern hash == classic hash == clvmr tree hash == harness's own SHA-256 tree hash; in fixed mode r1 == r2 <=> encodings identical and equal => same std Hash. Non-trivial: the tree contains an atom of a risky class (empty, 0x00, zero-prefixed, redundant sign extension, top bit set) or has >= 3 nodes; distinct by hash of the serialized case."
    }
    fn assumptions(&self) -> Vec<&'static str> {
        vec!["clvmr::serde::tree_hash_from_stream is the consensus tree hash", "sha2 crate"]
    }
    fn sections(&self, tier: Tier) -> Vec<Section> {
        vec![
            Section {
                name: "atoms_le2",
                kind: SectionKind::Enum { count: ATOMS_LEN_LE2 },
                exhaustive: true,
                what: "every byte string of length 0..2 as an atom, alone and as (a . a), both integer modes",
            },
            match tier {
                Tier::Quick => Section {
                    name: "atoms_len3_stride",
                    kind: SectionKind::Enum { count: (1u64 << 24) / STRIDE3 },
                    exhaustive: false,
                    what: "every 61st byte string of length 3 (offset by the seed), both integer modes",
                },
                Tier::Thorough => Section {
                    name: "atoms_len3",
                    kind: SectionKind::Enum { count: 1u64 << 24 },
                    exhaustive: true,
                    what: "every byte string of length 3 as an atom, both integer modes",
                },
            },
            Section {
                name: "trees",
                kind: SectionKind::Random {
                    cases: tier.pick(100_000, 1_000_000),
                    maxlen: 600,
                },
                exhaustive: false,
                what: "G1 trees (all atom classes incl. multi-KiB, all shapes), both integer modes",
            },
            Section {
                name: "eq_pairs",
                kind: SectionKind::Random {
                    cases: tier.pick(60_000, 500_000),
                    maxlen: 400,
                },
                exhaustive: false,
                what: "near-miss pairs of rich values (converted or parsed from a generated spelling), fixed mode: == and Hash vs encodings",
            },
        ]
    }

    fn run(&self, sec: &str, input: &Input, _tier: Tier, st: &mut Stats) -> Verdict {
        match (sec, input) {
            ("atoms_le2", Input::Index(i)) | ("atoms_len3", Input::Index(i)) | ("atoms_len3_stride", Input::Index(i)) => {
                let idx = match sec {
                    "atoms_le2" => *i,
                    "atoms_len3" => ATOMS_LEN_LE2 + *i,
                    _ => ATOMS_LEN_LE2 + (*i * STRIDE3 + (seed_offset() % STRIDE3)) % (1 << 24),
                };
                let b = atom_by_index(idx);
                let single = V::A(b.clone());
                let pair = cons(single.clone(), single.clone());
                for mode in [true, false] {
                    for t in [&single, &pair] {
                        if let Err(v) = check_convert_hash(t, mode) {
                            return Verdict::Violation(Box::new(v));
                        }
                    }
                }
                // equality clause on the atom against its near neighbours (fixed mode)
                if let Err(v) = eq_clause_atoms(&b) {
                    return Verdict::Violation(Box::new(v));
                }
                if risky(&b) {
                    st.nontrivial(idx);
                    st.label("risky_atom");
                    st.sample(|| json!({"section": sec, "atom": hex(&b), "checked": "alone and as (a . a), both modes"}));
                }
                Verdict::Pass
            }
            ("trees", Input::Bytes(bytes)) => {
                let mut c = Choices::new(bytes);
                let mut classes: Vec<&'static str> = vec![];
                let (t, shape) = gen_tree(&mut c, 60, &mut |c| {
                    let (b, cl) = gen_atom(c, true);
                    classes.push(cl);
                    b
                });
                st.label(shape);
                for cl in &classes {
                    st.label(cl);
                }
                for mode in [true, false] {
                    if let Err(v) = check_convert_hash(&t, mode) {
                        return Verdict::Violation(Box::new(v));
                    }
                }
                let mut atoms = vec![];
                t.atoms(&mut atoms);
                if atoms.iter().any(|a| risky(a)) || t.nodes() >= 3 {
                    st.nontrivial(fnv(&t.ser()));
                    st.sample(|| json!({"section": "trees", "value": t.show(), "shape": shape}));
                }
                Verdict::Pass
            }
            ("eq_pairs", Input::Bytes(bytes)) => {
                let mut c = Choices::new(bytes);
                let (t1, _) = gen_tree(&mut c, 12, &mut |c| gen_atom(c, false).0);
                let mut atoms = vec![];
                t1.atoms(&mut atoms);
                let n = atoms.len();
                let mut target = c.pick(n.max(1)) as i64;
                let t2 = if c.chance(64) { t1.clone() } else { mutate_one_atom(&mut c, &t1, &mut target) };
                let obtain = |c: &mut Choices, t: &V, st: &mut Stats| -> Result<Option<(Rc<SExp>, String)>, Viol> {
                    if c.chance(128) {
                        let txt = spell_tree(c, t);
                        st.label("obtained_by_parse");
                        match sut::with_int_mode(true, || sut::parse_one(&txt)) {
                            Ok(r) => Ok(Some((r, format!("parse {txt}")))),
                            Err(_) => Ok(None),
                        }
                    } else {
                        st.label("obtained_by_convert");
                        let r = sut::to_rich(t, true).map_err(|e| {
                            Viol::new("convert_from:error", "Ok", e, json!({"value": t.show()}))
                        })?;
                        Ok(Some((r, "convert_from_clvm_rs".to_string())))
                    }
                };
                let (r1, how1) = match obtain(&mut c, &t1, st) {
                    Ok(Some(x)) => x,
                    Ok(None) => return Verdict::Skip("spelling did not parse"),
                    Err(v) => return Verdict::Violation(Box::new(v)),
                };
                let (r2, how2) = match obtain(&mut c, &t2, st) {
                    Ok(Some(x)) => x,
                    Ok(None) => return Verdict::Skip("spelling did not parse"),
                    Err(v) => return Verdict::Violation(Box::new(v)),
                };
                // encodings are what the crate says they are (not assumed to equal t1/t2)
                let e1 = sut::from_rich(r1.clone(), true);
                let e2 = sut::from_rich(r2.clone(), true);
                let (e1, e2) = match (e1, e2) {
                    (Ok(a), Ok(b)) => (a, b),
                    _ => return Verdict::Skip("rich value does not encode"),
                };
                let same_enc = e1 == e2;
                let eq = sut::with_int_mode(true, || *r1 == *r2);
                let case = json!({"left": {"how": how1, "rich": format!("{r1:?}"), "encoding": e1.show()},
                                  "right": {"how": how2, "rich": format!("{r2:?}"), "encoding": e2.show()}, "int_mode": "fixed"});
                if eq != same_enc {
                    return Verdict::Violation(Box::new(Viol::new(
                        if eq { "eq:equal-but-encodings-differ" } else { "eq:unequal-but-encodings-same" },
                        format!("== is {same_enc}"),
                        format!("== is {eq}"),
                        case,
                    )));
                }
                if eq && std_hash(&r1) != std_hash(&r2) {
                    return Verdict::Violation(Box::new(Viol::new("hash:std-hash-differs-for-equal", "same Hash", "different Hash", case)));
                }
                st.label(if same_enc { "pair_same_encoding" } else { "pair_different_encoding" });
                if t1 != t2 || t1.nodes() >= 3 {
                    st.nontrivial(fnv(format!("{}|{}|{how1}|{how2}", e1.show(), e2.show()).as_bytes()));
                    st.sample(|| case.clone());
                }
                Verdict::Pass
            }
            _ => Verdict::Skip("unknown section"),
        }
    }

    fn replay(&self, case: &serde_json::Value, _st: &mut Stats) -> Option<Verdict> {
        let h = case.get("hex")?.as_str()?;
        let b = hex::decode(h).ok()?;
        let t = sut::consensus_deserialize(&b).ok()?;
        for mode in [true, false] {
            if let Err(v) = check_convert_hash(&t, mode) {
                return Some(Verdict::Violation(Box::new(v)));
            }
        }
        Some(Verdict::Pass)
    }
}

fn seed_offset() -> u64 {
    crate::core::SEED.load(std::sync::atomic::Ordering::Relaxed)
}

/// equality clause for one atom against spellings of itself and of its width-neighbours
fn eq_clause_atoms(b: &[u8]) -> Result<(), Viol> {
    let mut variants: Vec<Vec<u8>> = vec![b.to_vec()];
    let mut z = vec![0u8];
    z.extend_from_slice(b);
    variants.push(z);
    if !b.is_empty() {
        variants.push(b[1..].to_vec());
    } else {
        variants.push(vec![0]);
    }
    let rich: Vec<(Rc<SExp>, V)> = variants
        .iter()
        .filter_map(|v| {
            let t = V::A(v.clone());
            sut::to_rich(&t, true).ok().map(|r| (r, t))
        })
        .collect();
    // plus the hex-literal spelling read by the modern reader
    let mut all = rich.clone();
    for v in &variants {
        if let Ok(r) = sut::with_int_mode(true, || sut::parse_one(&format!("0x{}", hex(v)))) {
            if let Ok(e) = sut::from_rich(r.clone(), true) {
                all.push((r, e));
            }
        }
    }
    for (r1, e1) in &all {
        for (r2, e2) in &all {
            let eq = sut::with_int_mode(true, || **r1 == **r2);
            if eq != (e1 == e2) {
                return Err(Viol::new(
                    if eq { "eq:equal-but-encodings-differ" } else { "eq:unequal-but-encodings-same" },
                    format!("== is {}", e1 == e2),
                    format!("== is {eq}"),
                    json!({"left": {"rich": format!("{r1:?}"), "encoding": e1.show()}, "right": {"rich": format!("{r2:?}"), "encoding": e2.show()}}),
                ));
            }
            if eq && std_hash(r1) != std_hash(r2) {
                return Err(Viol::new(
                    "hash:std-hash-differs-for-equal",
                    "same Hash",
                    "different Hash",
                    json!({"left": format!("{r1:?}"), "right": format!("{r2:?}")}),
                ));
            }
        }
    }
    Ok(())
}
