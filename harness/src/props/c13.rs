//! C13 — symbol tables describe the emitted program.

use crate::choices::{fnv, Choices};
use crate::core::*;
use crate::gen_lisp::*;
use crate::gen_value::*;
use crate::props::c01::{decode_case, disasm, RUN_COST};
use crate::props::c10::reachable;
use crate::refint::{Interp, Outcome};
use crate::sut::{self, ModernOpts};
use chialisp::compiler::compiler::{extract_program_and_env, path_to_function, rewrite_in_program};
use serde_json::{json, Value};
use std::collections::HashMap;

pub struct C13Prop;
pub static C13: C13Prop = C13Prop;

fn subtree_hashes(v: &V, out: &mut HashMap<String, V>) -> Vec<u8> {
    let h = match v {
        V::A(_) => v.treehash(),
        V::P(l, r) => {
            let hl = subtree_hashes(l, out);
            let hr = subtree_hashes(r, out);
            use sha2::{Digest, Sha256};
            let mut s = Sha256::new();
            s.update([2u8]);
            s.update(&hl);
            s.update(&hr);
            s.finalize().to_vec()
        }
    };
    // atoms too: in optimised builds the code of an accessor function is a bare path atom
    out.entry(hex(&h)).or_insert_with(|| v.clone());
    h
}

fn is_hash_key(k: &str) -> bool {
    k.len() == 64 && k.chars().all(|c| c.is_ascii_hexdigit())
}

/// remove the _$_NNN suffixes the compiler's renaming appends to names
fn strip_fresh_suffixes(s: &str) -> String {
    let b = s.as_bytes();
    let mut out = String::new();
    let mut i = 0;
    while i < b.len() {
        if b[i..].starts_with(b"_$_") {
            i += 3;
            while i < b.len() && b[i].is_ascii_digit() {
                i += 1;
            }
        } else {
            out.push(b[i] as char);
            i += 1;
        }
    }
    out
}

fn collect_lambdas_prog(p: &Program, out: &mut Vec<(Vec<String>, Pat)>) {
    for h in &p.helpers {
        match h {
            Helper::Defun { body, .. } => collect_lambdas(body, out),
            Helper::Defconst { expr, .. } => collect_lambdas(expr, out),
            _ => {}
        }
    }
    collect_lambdas(&p.body, out);
}

fn collect_lambdas(e: &Expr, out: &mut Vec<(Vec<String>, Pat)>) {
    match e {
        Expr::Lambda { caps, params, body } => {
            out.push((caps.clone(), params.clone()));
            collect_lambdas(body, out);
        }
        Expr::If(a, b, c) => {
            collect_lambdas(a, out);
            collect_lambdas(b, out);
            collect_lambdas(c, out);
        }
        Expr::Prim(_, args) | Expr::List(args) | Expr::MacroCall { args, .. } => args.iter().for_each(|a| collect_lambdas(a, out)),
        Expr::Call { args, rest, .. } => {
            args.iter().for_each(|a| collect_lambdas(a, out));
            if let Some(r) = rest {
                collect_lambdas(r, out);
            }
        }
        Expr::Let { binds, body, .. } => {
            binds.iter().for_each(|b| collect_lambdas(&b.1, out));
            collect_lambdas(body, out);
        }
        Expr::Assign { binds, body, hint, .. } => {
            // assign-lambda makes lambdas of its own: treat as "more than one" by pushing a marker
            if *hint == 2 {
                out.push((vec!["<assign-lambda>".into()], Pat::Nil));
            }
            binds.iter().for_each(|b| collect_lambdas(&b.1, out));
            collect_lambdas(body, out);
        }
        Expr::Apply(a, b) => {
            collect_lambdas(a, out);
            collect_lambdas(b, out);
        }
        Expr::QQList(items) => items.iter().for_each(|i| {
            if let Err(e) = i {
                collect_lambdas(e, out)
            }
        }),
        Expr::ModExpr(p) => collect_lambdas_prog(p, out),
        _ => {}
    }
}

fn norm_args(s: &str) -> String {
    // parameter lists compare as parsed s-expressions, printed by the crate itself
    match sut::parse_one(s) {
        Ok(r) => r.to_string(),
        Err(_) => s.to_string(),
    }
}

pub fn judge(prog: &Program, d: Dialect, mo: ModernOpts, c: &mut Choices, st: &mut Stats) -> Result<usize, Viol> {
    let text = render_program(prog, Some(d));
    let compiled = match sut::compile_modern(&text, d.sigil(), mo, "*verif*.clsp", &[]) {
        Ok(x) => x,
        Err(e) => {
            st.reject(&format!("[{} {}] {}", d.name(), mo.name(), e.1.chars().take(80).collect::<String>()));
            return Ok(0);
        }
    };
    let mut hashes = HashMap::new();
    subtree_hashes(&compiled.code, &mut hashes);
    let syms = &compiled.symbols;
    let user_fns: HashMap<String, (&Pat, bool)> = prog
        .helpers
        .iter()
        .filter_map(|h| match h {
            Helper::Defun { name, params, inline, .. } => Some((name.clone(), (params, *inline))),
            _ => None,
        })
        .collect();
    let case = |extra: Value| json!({"source": text, "dialect": d.name(), "options": mo.name(), "compiled": disasm(&compiled.code), "compiled_hex": hex(&compiled.code.ser()), "detail": extra});
    let env_parts = extract_program_and_env(compiled.rich.clone());
    let mut matched = 0;
    for (k, name) in syms.iter() {
        if !is_hash_key(k) || !syms.contains_key(&format!("{k}_arguments")) {
            continue;
        }
        let Some(code_f) = hashes.get(k) else {
            st.label("entry-code-not-in-program");
            continue;
        };
        matched += 1;
        // (1) the value is a function of the program
        let synthetic = name.contains("_$_");
        if synthetic {
            st.label("synthetic-function-entry");
        }
        if !synthetic && !user_fns.contains_key(name) {
            return Err(Viol::new("entry-names-no-function-of-the-program", "a defun of the program or a synthesised helper", name.clone(), case(json!({"key": k}))));
        }
        if synthetic {
            // a desugared lambda takes ((captures..) . params): when the program has exactly one
            // lambda, its entry's recorded argument list must have that shape and those names
            // (fresh-name suffixes stripped)
            if name.starts_with("lambda_$_") && syms.iter().filter(|(k2, v2)| is_hash_key(k2) && v2.starts_with("lambda_$_")).count() == 1 {
                let mut lambdas = vec![];
                collect_lambdas_prog(prog, &mut lambdas);
                if lambdas.len() == 1 {
                    let (caps, params) = &lambdas[0];
                    let want = norm_args(&format!("(({}) . {})", caps.join(" "), render_pat(params)));
                    let rec = norm_args(&strip_fresh_suffixes(&syms[&format!("{k}_arguments")]));
                    st.label("lambda-entry-arguments-checked");
                    if rec != want {
                        return Err(Viol::new("lambda-entry-arguments-differ", want, rec, case(json!({"key": k, "function": name}))));
                    }
                }
            }
            continue;
        }
        let (params, inline) = user_fns[name];
        if inline {
            return Err(Viol::new("entry-for-inline-function", "no entry (inline functions have no code of their own)", name.clone(), case(json!({"key": k}))));
        }
        // (2) the recorded argument list is that function's
        let rec = norm_args(&syms[&format!("{k}_arguments")]);
        let want = norm_args(&render_pat(params));
        if rec != want {
            return Err(Viol::new("entry-arguments-differ", want, rec, case(json!({"key": k, "function": name}))));
        }
        // (3) the code found through the entry computes the function
        let left_env = syms.get(&format!("{k}_left_env")).map(|s| s == "1").unwrap_or(false);
        for _ in 0..2 {
            let args = gen_args_for(c, params);
            let want = Interp::new(prog, 100_000).run_function(name, &args);
            let Outcome::Value(want) = want else {
                st.label("function-reference-undefined(skip)");
                continue;
            };
            let got = if left_env {
                // through path_to_function / rewrite_in_program, as the tools do
                let Some((_, envq)) = &env_parts else {
                    st.label("program-has-no-left-env-form(skip)");
                    continue;
                };
                let hb = hex::decode(k).unwrap();
                st.label("through:path_to_function");
                if matches!(code_f, V::A(_)) {
                    st.label("through:path_to_function:code-is-an-atom");
                }
                let Some(path) = path_to_function(envq.clone(), &hb) else {
                    return Err(Viol::new("path_to_function-misses-code-that-is-in-the-env", "a path", "None", case(json!({"key": k, "function": name}))));
                };
                let callprog = rewrite_in_program(path, envq.clone());
                let Ok(cp) = sut::from_rich(callprog, true) else {
                    continue;
                };
                sut::run_consensus(&cp, &args, RUN_COST)
            } else {
                sut::run_consensus(code_f, &args, RUN_COST)
            };
            st.label("function-run-through-entry");
            match got {
                Ok(v) if v == want => {}
                Ok(v) => {
                    return Err(Viol::new("entry-code-computes-something-else", want.show(), v.show(), case(json!({"key": k, "function": name, "args": args.show(), "args_hex": hex(&args.ser()), "expected_hex": hex(&want.ser()), "left_env": left_env}))))
                }
                Err(m) => {
                    if sut::is_cost_exceeded(&m) {
                        continue;
                    }
                    return Err(Viol::new("entry-code-fails", want.show(), m, case(json!({"key": k, "function": name, "args": args.show(), "args_hex": hex(&args.ser()), "expected_hex": hex(&want.ser()), "left_env": left_env}))));
                }
            }
        }
    }
    // (4) unoptimised builds: every non-inline function reachable from main has an entry whose code occurs
    if !mo.optimize && !mo.post_opt && !mo.frontend_opt {
        let reach = reachable(prog);
        for (name, (_, inline)) in user_fns.iter() {
            if *inline || !reach.contains(name) {
                continue;
            }
            let entry = syms.iter().find(|(k, v)| is_hash_key(k) && *v == name && syms.contains_key(&format!("{k}_arguments")));
            // the table maps code hash -> one name: a function whose code is position-only (an
            // accessor such as (defun F (A B) B)) or a constant ((defun F (A) (list))) shares its
            // hash with every other function of the same shape (typically a lambda) and may be
            // listed under that other name
            fn mentions_nothing(e: &Expr) -> bool {
                // a constant body: no variable, no call
                match e {
                    Expr::Var(_) | Expr::Call { .. } | Expr::FunRef(_) | Expr::Lambda { .. } | Expr::Let { .. } | Expr::Assign { .. } | Expr::MacroCall { .. } | Expr::Apply(_, _) | Expr::ModExpr(_) => false,
                    Expr::If(a, b, c) => mentions_nothing(a) && mentions_nothing(b) && mentions_nothing(c),
                    Expr::Prim(_, args) | Expr::List(args) => args.iter().all(mentions_nothing),
                    Expr::QQList(items) => items.iter().all(|i| match i {
                        Ok(_) => true,
                        Err(e) => mentions_nothing(e),
                    }),
                    _ => true,
                }
            }
            let accessor = prog.helpers.iter().any(|h| matches!(h, Helper::Defun { name: n, body, .. } if n == name && (matches!(body, Expr::Var(_)) || mentions_nothing(body))));
            if entry.is_none() && accessor {
                st.label("accessor-shares-its-code-hash(skip)");
                continue;
            }
            if entry.is_none() {
                // the same one-name-per-hash effect, recognised by behaviour instead of by the shape
                // of the source: the modern compilers reduce a body whose value needs no argument
                // (a let with unused bindings around a constant, a call of a constant inline) to
                // (a (q . (q . C)) 1), the same code as every other function with that constant.
                // Accepted only when some listed entry's code, occurring in the program, computes
                // this function on each of three generated argument lists.
                let (params, _) = user_fns[name];
                let mut trials = vec![];
                for _ in 0..3 {
                    let args = gen_args_for(c, params);
                    if let Outcome::Value(want) = Interp::new(prog, 100_000).run_function(name, &args) {
                        trials.push((args, want));
                    }
                }
                let shared = trials.len() == 3
                    && syms.iter().any(|(k2, _)| {
                        if !is_hash_key(k2) || !syms.contains_key(&format!("{k2}_arguments")) {
                            return false;
                        }
                        let Some(code2) = hashes.get(k2) else {
                            return false;
                        };
                        let left_env = syms.get(&format!("{k2}_left_env")).map(|s| s == "1").unwrap_or(false);
                        trials.iter().all(|(args, want)| {
                            let got = if left_env {
                                let Some((_, envq)) = &env_parts else {
                                    return false;
                                };
                                let Some(path) = path_to_function(envq.clone(), &hex::decode(k2).unwrap()) else {
                                    return false;
                                };
                                let Ok(cp) = sut::from_rich(rewrite_in_program(path, envq.clone()), true) else {
                                    return false;
                                };
                                sut::run_consensus(&cp, args, RUN_COST)
                            } else {
                                sut::run_consensus(code2, args, RUN_COST)
                            };
                            matches!(got, Ok(v) if v == *want)
                        })
                    });
                if shared {
                    st.label("function-shares-its-code-with-a-listed-one(skip)");
                    continue;
                }
            }
            match entry {
                None => return Err(Viol::new("reachable-function-has-no-entry", format!("an entry for {name}"), "none", case(json!({"function": name})))),
                Some((k, _)) => {
                    if !hashes.contains_key(k) {
                        return Err(Viol::new("reachable-function-code-not-in-program", format!("code of {name} (hash {k}) in the emitted program"), "absent", case(json!({"function": name, "key": k}))));
                    }
                    st.label("presence-checked");
                }
            }
        }
    }
    Ok(matched)
}

impl Prop for C13Prop {
    fn id(&self) -> &'static str {
        "C13"
    }
    fn rule(&self) -> &'static str {
        "C01 generator's programs (0..8 user functions plus the helpers synthesised for let/assign/lambda), one modern sigil per case, with optimisation off and with the sigil's default options. Function entry := a 64-hex key K with a K_arguments companion. For each function entry whose K is the tree hash of a subtree of the emitted program: its value is a defun of the program or a synthesised name; for user functions K_arguments re-read equals the parameter list, and the code found through the entry (path_to_function + rewrite_in_program when K_left_env is set, the subtree itself otherwise) run on generated arguments gives what the reference interpreter gives for calling that function. When the program has exactly one lambda, the arguments recorded for its desugared function must read ((captures..) . params) after stripping fresh-name suffixes. Unoptimised builds: every non-inline function reachable from main has an entry whose code occurs in the program. Non-trivial: >= 2 function entries matched in the program. Distinct by hash of source + options."
    }
    fn sections(&self, tier: Tier) -> Vec<Section> {
        vec![Section {
            name: "random",
            kind: SectionKind::Random {
                cases: tier.pick(1_500, 12_000),
                maxlen: 6000,
            },
            exhaustive: false,
            what: "generated programs x {unoptimised, default options} x one sigil: symbol entries vs emitted code and reference",
        }]
    }
    fn run(&self, _sec: &str, input: &Input, tier: Tier, st: &mut Stats) -> Verdict {
        let Input::Bytes(bytes) = input else {
            return Verdict::Skip("index input not used");
        };
        let case = decode_case(bytes, tier, None);
        st.label("random_case");
        if case.collision {
            return Verdict::Skip("integer literal spells a name (generator precondition)");
        }
        let skip = bytes.len().saturating_sub(40);
        let mut c = Choices::new(&bytes[skip..]);
        let d = *c.choose(MODERN);
        st.label(&format!("dialect:{}", d.name()));
        let mut total = 0;
        for mo in [
            ModernOpts {
                optimize: false,
                frontend_opt: false,
                post_opt: false,
            },
            ModernOpts::cli_default(d.stepping()),
        ] {
            match judge(&case.prog, d, mo, &mut c, st) {
                Err(v) => return Verdict::Violation(Box::new(v)),
                Ok(n) => total = total.max(n),
            }
        }
        if total >= 1 {
            st.label("checked");
        }
        if total >= 2 {
            let text = render_program(&case.prog, None);
            st.nontrivial(fnv(text.as_bytes()));
            st.sample(|| json!({"source": text, "dialect": d.name(), "function_entries_matched": total}));
        }
        if total == 0 {
            Verdict::Skip("no function entry matched code in the program")
        } else {
            Verdict::Pass
        }
    }
    fn known(&self, v: &Viol) -> Option<&'static str> {
        // a miscompiled function body is the compiler's fault, not the symbol table's.  The C01
        // finding "CSE hoists a partial operation above its guard" is excused here under the same
        // four clauses, clause (4) being: the code found through the entry of the *unoptimised*
        // build of the same dialect returns the expected value for the same function arguments.
        if v.sig != "entry-code-fails" {
            return None;
        }
        let d = Dialect::parse(v.case.get("dialect")?.as_str()?)?;
        let opts = v.case.get("options")?.as_str()?;
        let src = v.case.get("source")?.as_str()?;
        // the other listed miscompilation of optimised cl23+ builds: the environment marker @ emitted
        // as (q . 64) (C01 finding cl23-constant-folds-path-into-atom); same marker in the code
        if d.stepping() >= 23 && opts.contains("opt=1") {
            let code = v.case.get("compiled_hex").and_then(|h| h.as_str()).and_then(|h| hex::decode(h).ok()).and_then(|b| sut::consensus_deserialize(&b).ok()).or_else(|| {
                sut::compile_modern(src, d.sigil(), ModernOpts { optimize: true, frontend_opt: false, post_opt: false }, "*verif*.clsp", &[]).ok().map(|c| c.code)
            });
            if let Some(code) = code {
                if crate::props::c01::code_has_const_path_into_atom(&code) {
                    return Some("cl23-constant-folds-path-into-atom");
                }
            }
        }
        if d.stepping() < 23 || !opts.contains("opt=1") || !crate::props::c01::source_has_repeated_partial_op(src) {
            return None;
        }
        let det = v.case.get("detail")?;
        let fname = det.get("function")?.as_str()?;
        let args = sut::consensus_deserialize(&hex::decode(det.get("args_hex")?.as_str()?).ok()?).ok()?;
        let want = sut::consensus_deserialize(&hex::decode(det.get("expected_hex")?.as_str()?).ok()?).ok()?;
        let unopt = sut::compile_modern(src, d.sigil(), ModernOpts { optimize: false, frontend_opt: false, post_opt: false }, "*verif*.clsp", &[]).ok()?;
        let mut hashes = HashMap::new();
        subtree_hashes(&unopt.code, &mut hashes);
        let (k, _) = unopt.symbols.iter().find(|(k, val)| is_hash_key(k) && val.as_str() == fname && hashes.contains_key(*k))?;
        let (_, envq) = extract_program_and_env(unopt.rich.clone())?;
        let path = path_to_function(envq.clone(), &hex::decode(k).ok()?)?;
        let cp = sut::from_rich(rewrite_in_program(path, envq), true).ok()?;
        if sut::run_consensus(&cp, &args, RUN_COST).ok()? == want {
            return Some("cl23-cse-hoists-partial-operation-above-its-guard");
        }
        None
    }
    fn sut_crash_is_violation(&self) -> bool {
        false
    }
    fn case_timeout(&self) -> (u64, bool) {
        (40, false)
    }
    fn health_floors(&self, _tier: Tier) -> Vec<(&'static str, &'static str, f64)> {
        vec![("checked", "random_case", 0.3)]
    }
}
