use crate::core::Prop;

pub mod c07;

pub fn all() -> Vec<&'static dyn Prop> {
    vec![&c07::C07]
}

pub fn lookup(id: &str) -> Option<&'static dyn Prop> {
    all().into_iter().find(|p| p.id() == id)
}
