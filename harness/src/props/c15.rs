//! C15 — source locations point at the text they describe.

use crate::choices::{fnv, Choices};
use crate::core::*;
use crate::gen_text::*;
use crate::sut;
use chialisp::compiler::sexp::{parse_sexp, ParsePartialResult, SExp};
use chialisp::compiler::srcloc::{src_location_max, Srcloc};
use serde_json::{json, Value};
use std::borrow::Borrow;
use std::collections::HashMap;
use std::rc::Rc;

pub struct C15Prop;
pub static C15: C15Prop = C15Prop;

const FILE: &str = "*verif-input*.clsp";

fn loc_json(l: &Srcloc) -> Value {
    json!({"file": l.file.to_string(), "line": l.line, "col": l.col, "until": l.until.as_ref().map(|u| json!([u.line, u.col]))})
}

/// texts of the pseudo-files the compiler can attribute a location to
pub fn pseudo_files() -> HashMap<String, String> {
    let mut m = HashMap::new();
    m.insert("*macros*".to_string(), format!("{}\n{}", *chialisp::compiler::compiler::STANDARD_MACROS, *chialisp::compiler::compiler::ADVANCED_MACROS));
    for (k, v) in chialisp::compiler::dialect::KNOWN_DIALECTS.iter() {
        m.insert(k.clone(), v.content.clone());
    }
    m
}

pub const PSEUDO_NAMES: &[&str] = &["*macros*", "*prims*", "*defmac*", "*sym*", "*command*", "*program*", "*args*", "*repl*", "*verif*", "*rng*", "*test*", "*print*", "*inline*"];

/// clause 4: the location names a known text and lies within it
pub fn check_error_location(l: &Srcloc, input_name: &str, input: &str, extra_files: &HashMap<String, String>) -> Result<(), String> {
    let fname = l.file.to_string();
    let text: Option<String> = if fname == input_name {
        Some(input.to_string())
    } else if let Some(t) = extra_files.get(&fname) {
        Some(t.clone())
    } else if let Some(t) = pseudo_files().get(&fname) {
        if fname == "*macros*" {
            // either macro set: bound by the longer one
            None
        } else {
            Some(t.clone())
        }
    } else if PSEUDO_NAMES.contains(&fname.as_str()) || chialisp::compiler::dialect::KNOWN_DIALECTS.contains_key(&fname) {
        None
    } else {
        return Err(format!("location names an unknown file {fname:?}"));
    };
    if l.line < 1 || l.col < 1 {
        return Err(format!("line/col below 1: {l}"));
    }
    let (ml, mc) = src_location_max(l);
    if (ml, mc) < (l.line, l.col) {
        return Err(format!("location ends before it starts: {l}"));
    }
    if let Some(t) = text {
        let lines: Vec<&str> = t.split('\n').collect();
        let within = |line: usize, col: usize| -> bool {
            if line > lines.len() + 1 {
                return false;
            }
            let len = lines.get(line - 1).map(|x| x.len()).unwrap_or(0);
            col <= len + 2
        };
        if !within(l.line, l.col) {
            return Err(format!("start {}:{} outside the text ({} lines)", l.line, l.col, lines.len()));
        }
        if !within(ml, mc) {
            return Err(format!("end {ml}:{mc} outside the text ({} lines)", lines.len()));
        }
    }
    Ok(())
}

fn walk(p: &Placed, s: &Rc<SExp>, text: &str, st: &mut Stats, n_leaves: &mut usize) -> Result<(), Viol> {
    let case = |what: &str, span: &Span, l: &Srcloc, tok: &str| {
        json!({"text": text, "what": what, "token": tok, "expected_first": [span.first.0, span.first.1], "expected_last": [span.last.0, span.last.1], "got": loc_json(l)})
    };
    match p {
        Placed::Leaf(tok, span) => {
            if matches!(s.borrow(), SExp::Cons(_, _, _)) {
                st.label("shape-mismatch(skip)");
                return Ok(());
            }
            let l = s.loc();
            let kind = match tok {
                Tok::Bare(_) => "bareword",
                Tok::Dec(_) => "decimal",
                Tok::Hex(_) => "hex",
                Tok::DStr(_, _) => "dquote-string",
                Tok::SStr(_, _) => "squote-string",
                Tok::Hash(_) => "hash-token",
            };
            st.label(&format!("token:{kind}"));
            *n_leaves += 1;
            let tokt = format!("{tok:?}");
            if l.file.as_str() != FILE {
                return Err(Viol::new(&format!("leaf-location-in-other-file:{kind}"), FILE, l.to_string(), case("file", span, &l, &tokt)));
            }
            if (l.line, l.col) != span.first {
                return Err(Viol::new(&format!("leaf-start-wrong:{kind}"), format!("{:?}", span.first), format!("({}, {})", l.line, l.col), case("start", span, &l, &tokt)));
            }
            let want_max = (span.last.0, span.last.1 + 1);
            if src_location_max(&l) != want_max {
                return Err(Viol::new(&format!("leaf-end-wrong:{kind}"), format!("{want_max:?}"), format!("{:?}", src_location_max(&l)), case("end", span, &l, &tokt)));
            }
            Ok(())
        }
        Placed::List(items, tail, span) => {
            let l = s.loc();
            let inside = |l: &Srcloc| (l.line, l.col) >= span.first && src_location_max(l) <= (span.last.0, span.last.1 + 1) && l.file.as_str() == FILE;
            if !inside(&l) {
                return Err(Viol::new("list-location-outside-its-parentheses", format!("within {:?}..{:?}", span.first, span.last), l.to_string(), case("list", span, &l, "(list)")));
            }
            st.label("list");
            let mut cur: Rc<SExp> = s.clone();
            for it in items {
                let next = match cur.borrow() {
                    SExp::Cons(cl, a, b) => {
                        if !inside(cl) {
                            return Err(Viol::new("cons-location-outside-its-list", format!("within {:?}..{:?}", span.first, span.last), cl.to_string(), case("cons", span, cl, "(cons)")));
                        }
                        walk(it, a, text, st, n_leaves)?;
                        b.clone()
                    }
                    _ => {
                        st.label("shape-mismatch(skip)");
                        return Ok(());
                    }
                };
                cur = next;
            }
            if let Some(t) = tail {
                walk(t, &cur, text, st, n_leaves)?;
            }
            Ok(())
        }
    }
}

fn same_with_locs(a: &SExp, b: &SExp) -> bool {
    if a.loc() != b.loc() {
        return false;
    }
    match (a, b) {
        (SExp::Cons(_, a1, a2), SExp::Cons(_, b1, b2)) => same_with_locs(a1, b1) && same_with_locs(a2, b2),
        (SExp::Cons(_, _, _), _) | (_, SExp::Cons(_, _, _)) => false,
        _ => format!("{a:?}") == format!("{b:?}"),
    }
}

pub fn judge_layout(text: &str, placed: &[Placed], st: &mut Stats) -> Result<usize, Viol> {
    let parsed = match parse_sexp(Srcloc::start(FILE), text.bytes()) {
        Ok(p) => p,
        Err(e) => {
            // a generated well-formed text must parse; the error location is still checked
            if let Err(m) = check_error_location(&e.0, FILE, text, &HashMap::new()) {
                return Err(Viol::new("reader-error-location-out-of-bounds", "within the text", m, json!({"text": text, "error": e.1})));
            }
            st.label("generated-text-rejected-by-reader");
            return Ok(0);
        }
    };
    if parsed.len() != placed.len() {
        return Err(Viol::new("number-of-top-level-forms-differs", format!("{} forms", placed.len()), format!("{} forms", parsed.len()), json!({"text": text})));
    }
    if placed.len() > 1 {
        st.label("several-top-level-forms");
    }
    let mut n = 0;
    for (p, s) in placed.iter().zip(parsed.iter()) {
        walk(p, s, text, st, &mut n)?;
    }
    // byte-at-a-time == whole
    let mut pp = ParsePartialResult::new(Srcloc::start(FILE));
    let mut err = None;
    for b in text.bytes() {
        if let Err(e) = pp.push(b) {
            err = Some(e);
            break;
        }
    }
    match (err, pp) {
        (Some(e), _) => return Err(Viol::new("incremental-parse-fails-whole-parse-succeeds", "same result", format!("{}: {}", e.0, e.1), json!({"text": text}))),
        (None, pp) => match pp.finalize() {
            Ok(v) => {
                if v.len() != parsed.len() || !v.iter().zip(parsed.iter()).all(|(a, b)| same_with_locs(a, b)) {
                    return Err(Viol::new("incremental-parse-differs-from-whole-parse", format!("{:?}", parsed[0]), format!("{:?}", v.first()), json!({"text": text})));
                }
            }
            Err(e) => return Err(Viol::new("incremental-finalize-fails-whole-parse-succeeds", "same result", format!("{}: {}", e.0, e.1), json!({"text": text}))),
        },
    }
    Ok(n)
}

/// error clause: compile a (mutated) text under its own / a forced sigil; every error location in bounds
pub fn judge_error_locations(text: &str, st: &mut Stats) -> Result<bool, Viol> {
    let mut any = false;
    // the reader
    if let Err(e) = parse_sexp(Srcloc::start(FILE), text.bytes()) {
        any = true;
        st.label("error:reader");
        if let Err(m) = check_error_location(&e.0, FILE, text, &HashMap::new()) {
            return Err(Viol::new("reader-error-location-out-of-bounds", "within the text", m, json!({"text": text, "error": e.1, "location": loc_json(&e.0)})));
        }
    }
    for d in crate::gen_lisp::MODERN {
        // a panic here is C14's subject (front ends never crash); C15 has no location to judge
        let r = std::panic::catch_unwind(std::panic::AssertUnwindSafe(|| {
            sut::compile_modern(text, d.sigil(), sut::ModernOpts::cli_default(d.stepping()), FILE, &[])
        }));
        let Ok(r) = r else {
            st.label("compiler-panicked:left-to-C14");
            continue;
        };
        if let Err((l, m)) = r {
            any = true;
            st.label("error:compiler");
            if let Err(why) = check_error_location(&l, FILE, text, &HashMap::new()) {
                return Err(Viol::new(
                    "compiler-error-location-out-of-bounds",
                    "a location inside the input, an include file or a built-in pseudo-file",
                    why,
                    json!({"text": text, "dialect": d.name(), "error": m, "location": loc_json(&l)}),
                ));
            }
        }
    }
    Ok(any)
}

/// 1..3 top-level forms; a leaf may stand at top level too
fn gen_top_forms(c: &mut Choices) -> Vec<TT> {
    let n = match c.weighted(&[6, 3, 2]) {
        0 => 1,
        1 => 2,
        _ => 3,
    };
    (0..n)
        .map(|i| match gen_tt(c, 4) {
            // a text consisting of one bare token only is less interesting than a list
            TT::Leaf(t) if n == 1 && i == 0 => TT::List(vec![TT::Leaf(t)], None),
            other => other,
        })
        .collect()
}

/// The location of a list ends one column after its last element for each enclosing level, not at
/// its closing parenthesis; when that parenthesis stands on a later line, the end column lies a
/// few columns past the end of the last element's line.  Excused only when the location's start is
/// in bounds, its end line exists, and the end column exceeds that line by at most 10 columns.
pub fn list_location_overshoot(v: &Viol) -> Option<&'static str> {
    if !v.sig.contains("error-location-out-of-bounds") {
        return None;
    }
    let text = v.case.get("text")?.as_str()?;
    let loc = v.case.get("location")?;
    // the location is stored either as an object or as its printed form "file(l):c-file(l2):c2"
    let (l1, c1, l2, c2) = if let Some(o) = loc.as_object() {
        let u = o.get("until")?.as_array()?;
        (o.get("line")?.as_u64()?, o.get("col")?.as_u64()?, u.first()?.as_u64()?, u.get(1)?.as_u64()?)
    } else {
        let s = loc.as_str()?;
        let nums: Vec<u64> = s.split(|ch: char| !ch.is_ascii_digit()).filter(|t| !t.is_empty()).filter_map(|t| t.parse().ok()).collect();
        // "{'col': 5, 'file': .., 'line': 1, 'until': [4, 22]}" or "name(1):5-name(4):22"
        if s.starts_with('{') {
            if nums.len() < 4 { return None; }
            (nums[1], nums[0], nums[2], nums[3])
        } else {
            if nums.len() < 4 { return None; }
            (nums[nums.len() - 4], nums[nums.len() - 3], nums[nums.len() - 2], nums[nums.len() - 1])
        }
    };
    let lines: Vec<&str> = text.split('\n').collect();
    let len = |l: u64| lines.get(l as usize - 1).map(|x| x.len() as u64);
    if l1 == 0 || l2 < l1 || c1 > len(l1)? + 1 {
        return None;
    }
    let over = c2.checked_sub(len(l2)? + 1)?;
    if (1..=10).contains(&over) && (l2 as usize) < lines.len() {
        return Some("list-locations-end-after-their-last-element-not-at-the-closing-parenthesis");
    }
    None
}

fn errors_text(bytes: &[u8]) -> Option<(String, &'static str)> {
    let mut c = Choices::new(bytes);
    let corpus = shipped_corpus();
    let base = if !corpus.is_empty() && c.chance(150) {
        corpus[c.pick(corpus.len())].1.clone()
    } else {
        let case = crate::props::c01::decode_case(&bytes[bytes.len() / 2..], Tier::Quick, None);
        crate::gen_lisp::render_program(&case.prog, Some(*c.choose(crate::gen_lisp::MODERN)))
    };
    if base.len() > 6000 {
        return None;
    }
    let other = if corpus.is_empty() { String::new() } else { corpus[c.pick(corpus.len())].1.clone() };
    Some(mutate(&mut c, &base, &other))
}

impl Prop for C15Prop {
    fn id(&self) -> &'static str {
        "C15"
    }
    fn rule(&self) -> &'static str {
        "Layout section: generated s-expression trees (barewords incl. operator names and punctuation words, negative and 60-digit decimals, hex, both quote styles with escaped quotes/backslashes, embedded newlines and delimiter characters, #name tokens, dotted tails) rendered with generated whitespace, newlines and comments while recording the exact line/column of the first and last character of every token and list; tab-free. Oracle: every leaf's location starts at the recorded first character and its end (crate's half-open convention) is one past the recorded last character; every list and cons location lies within its parentheses; ParsePartialResult fed one byte at a time gives the same values and locations as parse_sexp. Error section: mutated shipped sources and generated programs (token deletion/duplication/swap, truncation, inserted delimiters, keyword substitution, splices) through the reader and the compiler under all six sigils; every error location names the input or a built-in pseudo-file and lies within that text (1 <= line <= lines+1, col within the line + 1, end >= start). Non-trivial: (layout) >= 2 lines and a quoted string or # token; (errors) at least one error was produced. Distinct by hash of the text."
    }
    fn sections(&self, tier: Tier) -> Vec<Section> {
        vec![
            Section {
                name: "layout",
                kind: SectionKind::Random {
                    cases: tier.pick(20_000, 500_000),
                    maxlen: 1500,
                },
                exhaustive: false,
                what: "layout-recording renderer vs reader locations; incremental vs whole parse",
            },
            Section {
                name: "errors",
                kind: SectionKind::Random {
                    cases: tier.pick(2_500, 60_000),
                    maxlen: 400,
                },
                exhaustive: false,
                what: "mutated sources through reader and compiler (6 sigils): error locations in bounds",
            },
        ]
    }
    fn run(&self, sec: &str, input: &Input, _tier: Tier, st: &mut Stats) -> Verdict {
        let Input::Bytes(bytes) = input else {
            return Verdict::Skip("index input not used");
        };
        let mut c = Choices::new(bytes);
        match sec {
            "layout" => {
                let forms = gen_top_forms(&mut c);
                let (text, placed, comments, newlines) = {
                    let mut r = Renderer::new(&mut c);
                    let p = r.place_top(&forms);
                    (r.out.clone(), p, r.comments, r.newlines)
                };
                if comments > 0 {
                    st.label("has-comment");
                }
                match judge_layout(&text, &placed, st) {
                    Err(v) => Verdict::Violation(Box::new(v)),
                    Ok(n) => {
                        if n == 0 {
                            return Verdict::Skip("no leaf compared");
                        }
                        st.label("checked");
                        if newlines >= 1 && (text.contains('"') || text.contains('\'') || text.contains('#')) {
                            st.nontrivial(fnv(text.as_bytes()));
                            st.sample(|| json!({"section": "layout", "text": text, "leaves_checked": n}));
                        }
                        Verdict::Pass
                    }
                }
            }
            _ => {
                let Some((text, kind)) = errors_text(bytes) else {
                    return Verdict::Skip("base text too large for the quick error sweep");
                };
                st.label(kind);
                if text.contains('\t') || max_nesting(&text) > 200 {
                    return Verdict::Skip("tab or nesting > 200 (outside the property)");
                }
                match judge_error_locations(&text, st) {
                    Err(v) => Verdict::Violation(Box::new(v)),
                    Ok(any) => {
                        if any {
                            st.label("checked");
                            st.nontrivial(fnv(text.as_bytes()));
                            st.sample(|| json!({"section": "errors", "mutation": kind, "text": text.chars().take(400).collect::<String>()}));
                        }
                        Verdict::Pass
                    }
                }
            }
        }
    }
    fn describe(&self, sec: &str, input: &Input, _tier: Tier) -> Option<Value> {
        let Input::Bytes(bytes) = input else { return None };
        if sec == "layout" {
            let mut c = Choices::new(bytes);
            let forms = gen_top_forms(&mut c);
            let mut r = Renderer::new(&mut c);
            r.place_top(&forms);
            return Some(json!({"section": "layout", "text": r.out}));
        }
        errors_text(bytes).map(|(t, k)| json!({"section": "errors", "text": t, "mutation": k}))
    }
    fn replay(&self, case: &Value, st: &mut Stats) -> Option<Verdict> {
        let text = case.get("text")?.as_str()?;
        if let Some(exp) = case.get("leaf_locations").and_then(|l| l.as_array()) {
            // saved form of a layout case: the leaves of the parsed text, in order, must sit at
            // the listed [line, col, end_line, end_col_exclusive]
            let parsed = match parse_sexp(Srcloc::start(FILE), text.bytes()) {
                Ok(p) => p,
                Err(e) => return Some(Verdict::Violation(Box::new(Viol::new("replay-text-no-longer-parses", "parses", e.1, case.clone())))),
            };
            fn leaves(s: &SExp, out: &mut Vec<Srcloc>) {
                match s {
                    SExp::Cons(_, a, b) => {
                        leaves(a, out);
                        if !matches!(b.borrow(), SExp::Nil(_)) {
                            leaves(b, out);
                        }
                    }
                    other => out.push(other.loc()),
                }
            }
            let mut got = vec![];
            for p in parsed.iter() {
                leaves(p, &mut got);
            }
            let got: Vec<Value> = got.iter().map(|l| { let m = src_location_max(l); json!([l.line, l.col, m.0, m.1]) }).collect();
            if &got != exp {
                return Some(Verdict::Violation(Box::new(Viol::new("leaf-locations-differ", format!("{exp:?}"), format!("{got:?}"), case.clone()))));
            }
            return Some(Verdict::Pass);
        }
        Some(match judge_error_locations(text, st) {
            Err(v) => Verdict::Violation(Box::new(v)),
            Ok(_) => Verdict::Pass,
        })
    }
    fn sut_crash_is_violation(&self) -> bool {
        // stack overflows / aborts of the compiler on mutated texts are C14's subject
        false
    }
    fn known(&self, v: &Viol) -> Option<&'static str> {
        list_location_overshoot(v)
    }
    fn case_timeout(&self) -> (u64, bool) {
        (15, false)
    }
}
