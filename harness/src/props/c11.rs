//! C11 — every compile entry point produces the same program for the same source.

use crate::choices::{fnv, Choices};
use crate::core::*;
use crate::gen_lisp::*;
use crate::gen_value::*;
use crate::props::c01::decode_case;
use crate::sut;
use chialisp::classic::clvm::__type_compatibility__::Stream;
use chialisp::classic::clvm_tools::binutils::assemble;
use chialisp::classic::clvm_tools::clvmc::{compile_clvm, compile_clvm_inner, compile_clvm_text};
use chialisp::classic::clvm_tools::cmds::launch_tool;
use chialisp::classic::clvm_tools::comp_input::RunAndCompileInputData;
use chialisp::classic::platform::argparse::ArgumentValue;
use chialisp::compiler::comptypes::CompilerOpts;
use serde_json::{json, Value};
use std::collections::HashMap;
use std::rc::Rc;

pub struct C11Prop;
pub static C11: C11Prop = C11Prop;

/// replace the digits after every _$_ in every atom by N
pub fn normalize_gensyms(v: &V) -> V {
    match v {
        V::A(b) => {
            let mut out = vec![];
            let mut i = 0;
            while i < b.len() {
                if b[i..].starts_with(b"_$_") {
                    out.extend_from_slice(b"_$_N");
                    i += 3;
                    while i < b.len() && b[i].is_ascii_digit() {
                        i += 1;
                    }
                } else {
                    out.push(b[i]);
                    i += 1;
                }
            }
            V::A(out)
        }
        V::P(l, r) => cons(normalize_gensyms(l), normalize_gensyms(r)),
    }
}

fn short(v: &V) -> String {
    crate::props::c01::disasm(v).chars().take(300).collect()
}

fn cli_args_map(path: &str, text: &str, dir: &str, optimize: bool) -> HashMap<String, ArgumentValue> {
    let mut m = HashMap::new();
    m.insert("path_or_code".to_string(), ArgumentValue::ArgString(Some(path.to_string()), text.to_string()));
    m.insert("include".to_string(), ArgumentValue::ArgArray(vec![ArgumentValue::ArgString(None, dir.to_string())]));
    if optimize {
        m.insert("optimize".to_string(), ArgumentValue::ArgBool(true));
    }
    m
}

pub fn judge(text: &str, is_modern: bool, with_include: Option<&str>) -> Result<bool, Viol> {
    let dir = tempfile::Builder::new().prefix("c11-").tempdir_in(std::env::temp_dir()).expect("tempdir");
    let dirs = dir.path().to_string_lossy().to_string();
    if let Some(inc) = with_include {
        std::fs::write(dir.path().join("c11lib.clib"), inc).unwrap();
    }
    let path = dir.path().join("prog.clsp").to_string_lossy().to_string();
    std::fs::write(&path, text).unwrap();
    let search = vec![dirs.clone()];
    let case = |detail: Value| json!({"source": text, "include_file": with_include, "detail": detail});
    let opts = || -> Rc<dyn CompilerOpts> { Rc::new(chialisp::compiler::compiler::DefaultCompilerOpts::new(&path)).set_search_paths(&search) };

    // A: the Python binding's call
    let a = {
        let mut al = clvmr::Allocator::new();
        let mut syms = HashMap::new();
        compile_clvm_text(&mut al, opts(), &mut syms, text, &path, true).map(|n| V::from_node(&al, n)).map_err(|e| e.format(&al, opts()))
    };
    let Ok(a) = a else {
        return Ok(false);
    };
    let mut results: Vec<(&'static str, Result<V, String>)> = vec![];
    // B: the wasm binding's call
    {
        let mut al = clvmr::Allocator::new();
        let mut syms = HashMap::new();
        let mut s = Stream::new(None);
        let r = compile_clvm_inner(&mut al, opts(), &mut syms, &path, text, &mut s, false);
        results.push((
            "compile_clvm_inner(classic_with_opts=false) [wasm compile]",
            r.and_then(|_| {
                let val = s.get_value();
                sut::consensus_deserialize(&val.data()[..s.get_length()])
            }),
        ));
    }
    // C: file to file
    {
        let out = dir.path().join("prog.clvm.hex").to_string_lossy().to_string();
        let mut syms = HashMap::new();
        let r = compile_clvm(&path, &out, &search, &mut syms);
        results.push((
            "compile_clvm (file to file)",
            r.and_then(|_| std::fs::read_to_string(&out).map_err(|e| e.to_string())).and_then(|h| hex::decode(h.trim()).map_err(|e| e.to_string())).and_then(|b| sut::consensus_deserialize(&b)),
        ));
    }
    // D: the command line compiler with optimisation requested, output re-assembled
    // In the dialects without int_fix the *text* the tools print is lossy by documented design (a
    // literal with a redundant leading byte prints as the number it spells) and `run` has no other
    // output for a modern program: for those dialects the comparisons that go through printed text
    // are made after reducing every atom to its minimal integer spelling on both sides.
    let legacy_modern = crate::gen_lisp::MODERN.iter().any(|d| !d.int_fix() && text.contains(d.sigil()));
    let run_text = |optimize: bool| -> Result<String, String> {
        let mut s = Stream::new(None);
        let symout = dir.path().join("main.sym").to_string_lossy().to_string();
        let mut args: Vec<String> = vec!["run".into()];
        if optimize {
            args.push("-O".into());
        }
        args.extend(["-i".to_string(), dirs.clone(), "--symbol-output-file".to_string(), symout, path.clone()]);
        launch_tool(&mut s, &args, "run", 2);
        let val = s.get_value();
        Ok(String::from_utf8_lossy(&val.data()[..s.get_length()]).trim().to_string())
    };
    {
        let r = run_text(true).and_then(|t| {
            let mut al = clvmr::Allocator::new();
            assemble(&mut al, &t).map(|n| V::from_node(&al, n)).map_err(|e| format!("run printed text that does not assemble: {e}: {}", t.chars().take(200).collect::<String>()))
        });
        results.push(("run -O (printed text re-assembled)", r));
    }
    // E: RunAndCompileInputData + compile_modern (sigil programs)
    if is_modern {
        let mut al = clvmr::Allocator::new();
        let r = RunAndCompileInputData::new(&mut al, &cli_args_map(&path, text, &dirs, true)).and_then(|p| {
            let mut syms = HashMap::new();
            p.compile_modern(&mut al, &mut syms).map_err(|e| format!("{}: {}", e.0, e.1)).and_then(|rich| sut::from_rich(rich, true))
        });
        results.push(("RunAndCompileInputData(-O).compile_modern", r));
    }
    fn minimal(v: &V) -> V {
        match v {
            V::A(b) => V::A(chialisp::util::u8_from_number(chialisp::util::number_from_u8(b))),
            V::P(x, y) => V::P(std::rc::Rc::new(minimal(x)), std::rc::Rc::new(minimal(y))),
        }
    }
    for (name, r) in &results {
        match r {
            Ok(v) if v == &a => {}
            Ok(v) if legacy_modern && name.contains("printed text") && minimal(v) == minimal(&a) => {}
            Ok(v) => {
                return Err(Viol::new(
                    &format!("entry-points-differ:{}", name.split(' ').next().unwrap_or("")),
                    format!("library (compile_clvm_text): {}", short(&a)),
                    format!("{name}: {}", short(v)),
                    case(json!({"entry_point": name, "library_hex": hex(&a.ser()), "other_hex": hex(&v.ser())})),
                ))
            }
            Err(e) => {
                return Err(Viol::new(
                    &format!("entry-point-fails:{}", name.split(' ').next().unwrap_or("")),
                    "the same program as the library entry point",
                    format!("{name}: error {}", e.chars().take(300).collect::<String>()),
                    case(json!({"entry_point": name})),
                ))
            }
        }
    }
    // F: the debugger compiles a source argument to what run prints with the same flags
    if is_modern {
        for optimize in [false, true] {
            let mut al = clvmr::Allocator::new();
            let dbg = RunAndCompileInputData::new(&mut al, &cli_args_map(&path, text, &dirs, optimize)).and_then(|p| {
                let mut syms = HashMap::new();
                p.compile_modern(&mut al, &mut syms).map_err(|e| format!("{}: {}", e.0, e.1)).and_then(|rich| sut::from_rich(rich, true))
            });
            let printed = run_text(optimize).and_then(|t| {
                let mut al2 = clvmr::Allocator::new();
                assemble(&mut al2, &t).map(|n| V::from_node(&al2, n)).map_err(|e| format!("{e}: {}", t.chars().take(200).collect::<String>()))
            });
            match (&dbg, &printed) {
                (Ok(x), Ok(y)) if x == y => {}
                (Ok(x), Ok(y)) if legacy_modern && minimal(x) == minimal(y) => {}
                (Err(_), Err(_)) => {}
                _ => {
                    return Err(Viol::new(
                        &format!("cldb-vs-run:optimize={optimize}"),
                        format!("run prints: {}", printed.as_ref().map(short).unwrap_or_else(|e| e.clone())),
                        format!("cldb compiles: {}", dbg.as_ref().map(short).unwrap_or_else(|e| e.clone())),
                        case(json!({"optimize": optimize, "run_hex": printed.as_ref().map(|v| hex(&v.ser())).unwrap_or_default(), "cldb_hex": dbg.as_ref().map(|v| hex(&v.ser())).unwrap_or_default()})),
                    ))
                }
            }
        }
    }
    Ok(true)
}

impl Prop for C11Prop {
    fn id(&self) -> &'static str {
        "C11"
    }
    fn rule(&self) -> &'static str {
        "C01/C03 generator programs under every sigil and as classic programs, with and without an include file found through the search path. Oracle: bytes of compile_clvm_text(.., classic_with_opts=true) [the Python binding's call] == compile_clvm_inner(.., false) [the wasm binding's call] == the hex file written by compile_clvm == assemble(text printed by launch_tool run -O -i dir file) [for the dialects without int_fix, whose printed text is lossy by documented design, compared after reducing atoms to their minimal integer spelling] == RunAndCompileInputData(-O).compile_modern (sigil programs); and for sigil programs what cldb's input path compiles with given flags == what run prints with the same flags (with and without -O). The pyo3/wasm glue itself is not compiled; the exact library calls with the options the bindings construct are made. Non-trivial: the program has >= 1 helper. Distinct by hash of the source."
    }
    fn sections(&self, tier: Tier) -> Vec<Section> {
        vec![Section {
            name: "random",
            kind: SectionKind::Random {
                cases: tier.pick(400, 3_000),
                maxlen: 6000,
            },
            exhaustive: false,
            what: "generated programs (all sigils + classic) x 5 entry points (+ cldb vs run)",
        }]
    }
    fn run(&self, _sec: &str, input: &Input, tier: Tier, st: &mut Stats) -> Verdict {
        let Input::Bytes(bytes) = input else {
            return Verdict::Skip("index input not used");
        };
        let skip = bytes.len().saturating_sub(3);
        let mut c = Choices::new(&bytes[skip..]);
        let d = *c.choose(&[Dialect::Classic, Dialect::Cl21, Dialect::Strict21, Dialect::Cl22, Dialect::Cl23, Dialect::Cl231, Dialect::Cl24]);
        let with_inc = c.chance(110);
        let case = if d == Dialect::Classic { decode_case(bytes, tier, Some(GenCfg::classic(true))) } else { decode_case(bytes, tier, None) };
        st.label("random_case");
        if case.collision {
            return Verdict::Skip("integer literal spells a name (generator precondition)");
        }
        st.label(&format!("dialect:{}", d.name()));
        let mut prog = case.prog.clone();
        let inc_text = if with_inc {
            st.label("with_include");
            // the included constant takes part in the result
            prog.body = Expr::Prim("c", vec![Expr::Var("KINC_c11".into()), prog.body.clone()]);
            Some("(\n  (defconstant KINC_c11 4242)\n)\n")
        } else {
            None
        };
        let mut text = render_program(&prog, Some(d));
        if with_inc {
            // include form right after the parameter list / sigil
            let at = text.find('\n').unwrap_or(text.len());
            let at2 = if d == Dialect::Classic { at } else { text[at + 1..].find('\n').map(|i| at + 1 + i).unwrap_or(at) };
            text.insert_str(at2, "\n  (include c11lib.clib)");
        }
        match judge(&text, d != Dialect::Classic, inc_text) {
            Err(v) => Verdict::Violation(Box::new(v)),
            Ok(false) => {
                st.label("library-entry-point-rejects");
                Verdict::Skip("rejected by the library entry point")
            }
            Ok(true) => {
                st.label("checked");
                if !case.prog.helpers.is_empty() {
                    st.nontrivial(fnv(text.as_bytes()));
                    st.sample(|| json!({"dialect": d.name(), "with_include": with_inc, "source": text}));
                }
                Verdict::Pass
            }
        }
    }
    fn replay(&self, case: &Value, _st: &mut Stats) -> Option<Verdict> {
        let src = case.get("source")?.as_str()?;
        let inc = case.get("include_file").and_then(|i| i.as_str());
        let modern = MODERN.iter().any(|d| src.contains(d.sigil()));
        Some(match judge(src, modern, inc) {
            Err(v) => Verdict::Violation(Box::new(v)),
            Ok(_) => Verdict::Pass,
        })
    }
    fn known(&self, v: &Viol) -> Option<&'static str> {
        // the two outputs differ only in the counter digits of a leaked gensym'd name
        // (NAME_$_123): the evaluator's com defect (C01 entry) surfacing through the counter
        let det = v.case.get("detail")?;
        // cldb vs the text `run` prints: the modern printer writes an atom that compile-time
        // evaluation produced (Atom, not Integer) as a bare word when its bytes are printable, and
        // the classic assembler reads a bare word that is an operator name as that operator:
        // 102 is printed f and re-read as 5.  Excused only when the two programs differ at nothing
        // but atoms where the re-assembled side holds the opcode whose NAME the other side spells.
        if let (Some(rh), Some(ch)) = (det.get("run_hex").and_then(|h| h.as_str()), det.get("cldb_hex").and_then(|h| h.as_str())) {
            // the same printing of a computed atom as a bare word, where the word is a character
            // that ends or breaks the text for any reader: 59 is printed ; (a comment to the end
            // of the line), 34 ", 40 ( and 41 ) -- the text does not re-assemble at all.  Excused
            // only when the text failed to read AND the program cldb compiles holds such an atom.
            if rh.is_empty() && v.expected.contains("run prints: Internal Error") {
                let c = sut::consensus_deserialize(&hex::decode(ch).ok()?).ok()?;
                let mut atoms = vec![];
                c.atoms(&mut atoms);
                if atoms.iter().any(|a| a.len() == 1 && matches!(a[0], b';' | b'"' | b'(' | b')' | b'\'')) {
                    return Some("printed-program-text-spells-computed-atoms-as-operator-names");
                }
                return None;
            }
            let r = sut::consensus_deserialize(&hex::decode(rh).ok()?).ok()?;
            let c = sut::consensus_deserialize(&hex::decode(ch).ok()?).ok()?;
            fn only_name_vs_opcode(printed: &V, real: &V, any: &mut bool) -> bool {
                match (printed, real) {
                    (V::A(p), V::A(q)) => {
                        if p == q {
                            return true;
                        }
                        // what the classic assembler makes of the bare word these bytes spell:
                        // a leading # is dropped, an operator name becomes its opcode
                        let name = String::from_utf8_lossy(q).to_string();
                        let stripped = name.strip_prefix('#').unwrap_or(&name).to_string();
                        let mut hit = match chialisp::classic::clvm::keyword_to_atom(2).get(&stripped) {
                            Some(op) => op == p,
                            None => stripped != name && stripped.as_bytes() == &p[..],
                        };
                        // ... and a word that spells a number reads as that number ("12" -> 12)
                        if !hit && !name.is_empty() && name.chars().all(|ch| ch.is_ascii_alphanumeric() || ch == '-') {
                            let mut al = clvmr::Allocator::new();
                            if let Ok(n) = assemble(&mut al, &name) {
                                if let V::A(bytes) = V::from_node(&al, n) {
                                    hit = bytes != *q && bytes == *p;
                                }
                            }
                        }
                        *any |= hit;
                        hit
                    }
                    (V::P(a, b), V::P(c, d)) => only_name_vs_opcode(a, c, any) && only_name_vs_opcode(b, d, any),
                    _ => false,
                }
            }
            let mut any = false;
            if only_name_vs_opcode(&r, &c, &mut any) && any {
                return Some("printed-program-text-spells-computed-atoms-as-operator-names");
            }
            // or only the counter digits of a leaked renamed name differ (two compiles, two values
            // of the fresh-name counter)
            if r != c && normalize_gensyms(&r) == normalize_gensyms(&c) {
                return Some("evaluator-com-leaks-let-bound-names");
            }
            // run and cldb compile one after the other, at different values of the fresh-name
            // counter: the cl23+ CSE binding order follows the fresh names (C05 finding)
            {
                let src0 = v.case.get("source").and_then(|s| s.as_str()).unwrap_or("");
                let modern_cse = ["*standard-cl-23*", "*standard-cl-23.1*", "*standard-cl-24*"].iter().any(|g| src0.contains(g));
                if modern_cse && crate::props::c01::source_repeats_a_call(src0) && crate::props::c05::same_behaviour_on_generic_arguments(&r, &c) {
                    return Some("cl23-cse-binding-order-follows-the-fresh-names");
                }
            }
            return None;
        }
        let a = sut::consensus_deserialize(&hex::decode(det.get("library_hex")?.as_str()?).ok()?).ok()?;
        let b = sut::consensus_deserialize(&hex::decode(det.get("other_hex")?.as_str()?).ok()?).ok()?;
        if a != b && normalize_gensyms(&a) == normalize_gensyms(&b) {
            return Some("evaluator-com-leaks-let-bound-names");
        }
        // cl23+ CSE emits its bindings in an order that follows the fresh names (C05 finding): two
        // entry points run one after the other compile at different counter values
        {
            let src0 = v.case.get("source").and_then(|s| s.as_str()).unwrap_or("");
            let modern_cse = ["*standard-cl-23*", "*standard-cl-23.1*", "*standard-cl-24*"].iter().any(|g| src0.contains(g));
            let mut xa = vec![];
            let mut xb = vec![];
            a.atoms(&mut xa);
            b.atoms(&mut xb);
            xa.sort();
            xb.sort();
            let _ = (&xa, &xb);
            if modern_cse && crate::props::c01::source_repeats_a_call(src0) && crate::props::c05::same_behaviour_on_generic_arguments(&a, &b) {
                return Some("cl23-cse-binding-order-follows-the-fresh-names");
            }
        }
        // the leaked name may have been computed with (its digits are then not visible): the code is
        // a function of the fresh-name counter and of nothing else, in a program where the
        // evaluator's com is in play (cl22 sigil or a defconst)
        let src = v.case.get("source").and_then(|s| s.as_str()).unwrap_or("");
        if src.contains("*standard-cl-22*") || src.contains("(defconst ") {
            if let Some(d) = crate::gen_lisp::MODERN.iter().copied().find(|d| src.contains(d.sigil())) {
                let at = |n: usize| {
                    chialisp::compiler::gensym::ARGNAME_CTR.store(n, std::sync::atomic::Ordering::SeqCst);
                    sut::compile_lib(src, true, &[]).ok().map(|c| c.ser())
                };
                let _ = d;
                let (a1, a2) = (at(5000), at(5000));
                if a1.is_some() && a1 == a2 {
                    // (the dependence can be on single digits of the name: several other values)
                    for n in [777_777usize, 0, 50, 950, 99_990, 999_990, 100, 31, 123_456] {
                        let b1 = at(n);
                        if b1.is_some() && a1 != b1 {
                            return Some("evaluator-com-leaks-let-bound-names");
                        }
                    }
                }
            }
        }
        None
    }
    fn sut_crash_is_violation(&self) -> bool {
        false
    }
    fn case_timeout(&self) -> (u64, bool) {
        (90, false)
    }
    fn health_floors(&self, _tier: Tier) -> Vec<(&'static str, &'static str, f64)> {
        vec![("checked", "random_case", 0.6)]
    }
}
