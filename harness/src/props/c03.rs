//! C03 — classic compiler output computes what the source means; agrees with cl21 on the
//! shared subset.

use crate::choices::fnv;
use crate::core::*;
use crate::gen_lisp::*;
use crate::gen_value::*;
use crate::props::c01::{decode_case, disasm, nontrivial_feats, replay_source_case, run_param_case, RUN_COST};
use crate::refint::{reference, Outcome};
use crate::sut::{self, ModernOpts};
use serde_json::{json, Value};

/// does the source define a defun-inline whose parameter list is not a proper list?
pub fn inline_with_rest_parameter(src: &str) -> bool {
    use chialisp::compiler::sexp::SExp;
    use std::borrow::Borrow;
    let Ok(forms) = chialisp::compiler::sexp::parse_sexp(sut::loc(), src.bytes()) else {
        return false;
    };
    fn walk(s: &SExp) -> bool {
        if let Some(l) = s.proper_list() {
            if l.len() >= 3 {
                if let SExp::Atom(_, h) = &l[0] {
                    if h == b"defun-inline" && l[2].proper_list().is_none() {
                        return true;
                    }
                }
            }
            return l.iter().any(walk);
        }
        if let SExp::Cons(_, a, b) = s {
            return walk(a.borrow()) || walk(b.borrow());
        }
        false
    }
    forms.iter().any(|f| walk(f.borrow()))
}

/// some defun-inline body contains a qq form (the classic inliner wraps the body in a qq of its
/// own, and classic qq has one level only)
pub fn inline_body_contains_qq(src: &str) -> bool {
    use chialisp::compiler::sexp::SExp;
    use std::borrow::Borrow;
    let Ok(forms) = chialisp::compiler::sexp::parse_sexp(sut::loc(), src.bytes()) else {
        return false;
    };
    fn has_qq(s: &SExp) -> bool {
        match s {
            SExp::Cons(_, a, b) => {
                if let SExp::Atom(_, h) = a.borrow() {
                    if h == b"qq" {
                        return true;
                    }
                }
                has_qq(a.borrow()) || has_qq(b.borrow())
            }
            _ => false,
        }
    }
    fn walk(s: &SExp) -> bool {
        if let Some(l) = s.proper_list() {
            if l.len() >= 4 {
                if let SExp::Atom(_, h) = &l[0] {
                    if h == b"defun-inline" && l[3..].iter().any(has_qq) {
                        return true;
                    }
                }
            }
            return l.iter().any(walk);
        }
        if let SExp::Cons(_, a, b) = s {
            return walk(a.borrow()) || walk(b.borrow());
        }
        false
    }
    forms.iter().any(|f| walk(f.borrow()))
}

pub struct C03Prop;
pub static C03: C03Prop = C03Prop;

fn judge_classic(prog: &Program, args: &[V], refs: &[Outcome], st: &mut Stats) -> Result<(usize, bool), Viol> {
    let text = render_program(prog, Some(Dialect::Classic));
    let code = match sut::compile_lib(&text, false, &[]) {
        Ok(c) => c,
        Err(m) => {
            st.reject(&format!("[classic] {}", m.chars().take(90).collect::<String>()));
            return Ok((0, false));
        }
    };
    // second sentence: the cl21 build of the same source
    let text21 = render_program(prog, Some(Dialect::Cl21));
    let code21 = sut::compile_modern(&text21, Dialect::Cl21.sigil(), ModernOpts::cli_default(21), "*verif*.clsp", &[]).ok().map(|c| c.code);
    let mut defined = 0;
    for (a, r) in args.iter().zip(refs.iter()) {
        let got = sut::run_consensus(&code, a, RUN_COST);
        let case = |extra: &str| {
            json!({"source": text, "dialect": "classic", "args": a.show(), "args_hex": hex(&a.ser()), "compiled": disasm(&code),
                   "compiled_hex": hex(&code.ser()), "note": extra})
        };
        if let Outcome::Value(want) = r {
            defined += 1;
            let mut c = case("");
            c["expected_hex"] = json!(hex(&want.ser()));
            match &got {
                Ok(v) => {
                    if v != want {
                        return Err(Viol::new("wrong-value:classic", want.show(), v.show(), c));
                    }
                }
                Err(m) => {
                    if sut::is_cost_exceeded(m) {
                        st.label("skip:run-cost-limit");
                        continue;
                    }
                    return Err(Viol::new("compiled-fails:classic", want.show(), format!("error: {m}"), c));
                }
            }
        }
        // classic vs cl21 on the same arguments, both directions when both return
        if let Some(c21) = &code21 {
            if let (Ok(vc), Ok(vm)) = (&got, sut::run_consensus(c21, a, RUN_COST)) {
                st.label("classic-and-cl21-both-return");
                if vc != &vm {
                    let mut c = case("classic and cl21 builds of the same source both return, with different values");
                    c["expected_hex"] = json!(hex(&vm.ser()));
                    c["cl21_compiled"] = json!(disasm(c21));
                    return Err(Viol::new("classic-vs-cl21:different-value", format!("cl21: {}", vm.show()), format!("classic: {}", vc.show()), c));
                }
            }
        }
    }
    Ok((defined, true))
}

impl Prop for C03Prop {
    fn id(&self) -> &'static str {
        "C03"
    }
    fn rule(&self) -> &'static str {
        "Type-directed generator restricted to the classic subset (defun incl. recursive templates and rest parameters, defun-inline incl. destructuring parameter lists, defmacro templates, defconstant, defconst, if/list/qq/unquote, 0..40 parameters, value-returning operators, int/string/hex literals; quoted data never spells operator names, no unbound identifiers, integer literals never spell a name in scope), no sigil, through clvmc::compile_clvm_text; 3 generated argument trees. Oracle: (1) the harness's call-by-value reference interpreter: whenever it yields a value the classic CLVM run by clvmr yields exactly it; (2) whenever the classic build and the cl21 build of the same text both return on the same arguments, the values are equal. Plus the systematic family: every position of every flat parameter list 1..40 and every binary parameter tree <= 5 leaves, directly, through a defun and through a defun-inline. Non-trivial: compiled, reference defined, and >= 1 helper or >= 2 parameters. Distinct by hash of source + arguments."
    }
    fn sections(&self, tier: Tier) -> Vec<Section> {
        vec![
            Section {
                name: "params_systematic",
                kind: SectionKind::Enum {
                    count: crate::props::c01::param_family().iter().filter(|p| !p.what.starts_with("at-")).count() as u64,
                },
                exhaustive: true,
                what: "classic: every position of every flat parameter list 1..40 and of every binary parameter tree <= 5 leaves via direct reference, defun and defun-inline",
            },
            Section {
                name: "random",
                kind: SectionKind::Random {
                    cases: tier.pick(1_500, 30_000),
                    maxlen: 5000,
                },
                exhaustive: false,
                what: "generated classic-subset programs x 3 argument trees vs the reference interpreter and vs the cl21 build",
            },
        ]
    }
    fn run(&self, sec: &str, input: &Input, tier: Tier, st: &mut Stats) -> Verdict {
        match (sec, input) {
            ("params_systematic", Input::Index(i)) => {
                // map onto the non-@ members of the shared family
                let fam = crate::props::c01::param_family();
                let idxs: Vec<usize> = fam.iter().enumerate().filter(|(_, p)| !p.what.starts_with("at-")).map(|(k, _)| k).collect();
                run_param_case(idxs[*i as usize] as u64, &[Dialect::Classic], st)
            }
            ("random", Input::Bytes(bytes)) => {
                let case = decode_case(bytes, tier, Some(GenCfg::classic(tier == Tier::Quick)));
                st.label("random_case");
                if case.collision {
                    return Verdict::Skip("integer literal spells a name (generator precondition)");
                }
                for f in &case.feats {
                    st.label(f);
                }
                let refs: Vec<Outcome> = case.args.iter().map(|a| reference(&case.prog, a)).collect();
                for r in &refs {
                    st.label(match r {
                        Outcome::Value(_) => "ref:value",
                        Outcome::Fails(_) => "ref:fails",
                        Outcome::Undefined(_) => "ref:undefined",
                    });
                }
                match judge_classic(&case.prog, &case.args, &refs, st) {
                    Err(v) => Verdict::Violation(Box::new(v)),
                    Ok((defined, compiled)) => {
                        if compiled {
                            st.label("compiled");
                        }
                        if compiled && defined > 0 {
                            st.label("checked");
                            let mut names = vec![];
                            pat_names(&case.prog.params, &mut names);
                            if !case.prog.helpers.is_empty() || names.len() >= 2 || nontrivial_feats(&case.feats) {
                                let text = render_program(&case.prog, None);
                                let mut k = text.clone().into_bytes();
                                for a in &case.args {
                                    k.extend(a.ser());
                                }
                                st.nontrivial(fnv(&k));
                                st.sample(|| json!({"section": "random", "source": text, "args": case.args.iter().map(|a| a.show()).collect::<Vec<_>>(), "features": case.feats}));
                            }
                            Verdict::Pass
                        } else if !compiled {
                            Verdict::Skip("rejected by the classic compiler (counted in generator_rejects)")
                        } else {
                            Verdict::Skip("reference value undefined or failing for every argument tree")
                        }
                    }
                }
            }
            _ => Verdict::Skip("unknown section"),
        }
    }
    fn reduce(&self, _sec: &str, input: &Input, tier: Tier, v: &Viol) -> Option<Viol> {
        let Input::Bytes(b) = input else { return None };
        let case = decode_case(b, tier, Some(GenCfg::classic(tier == Tier::Quick)));
        let mut last: Option<Viol> = None;
        let sig = v.sig.clone();
        let args = case.args.clone();
        let mut still = |p: &Program| -> bool {
            crate::worker::heartbeat();
            let refs: Vec<Outcome> = args.iter().map(|a| reference(p, a)).collect();
            let mut st = Stats { scratch: true, ..Default::default() };
            match judge_classic(p, &args, &refs, &mut st) {
                Err(v2) if v2.sig == sig => {
                    last = Some(v2);
                    true
                }
                _ => false,
            }
        };
        let _ = crate::reduce::reduce_program(&case.prog, &mut still, 400);
        last
    }
    fn replay(&self, case: &Value, _st: &mut Stats) -> Option<Verdict> {
        replay_source_case(case)
    }
    fn describe(&self, _sec: &str, input: &Input, tier: Tier) -> Option<Value> {
        let Input::Bytes(b) = input else { return None };
        let case = decode_case(b, tier, Some(GenCfg::classic(tier == Tier::Quick)));
        Some(json!({"source": render_program(&case.prog, Some(Dialect::Classic)), "args": case.args.iter().map(|a| a.show()).collect::<Vec<_>>(), "features": case.feats}))
    }
    fn sut_crash_is_violation(&self) -> bool {
        false
    }
    fn known(&self, v: &Viol) -> Option<&'static str> {
        // classic defun-inline is substitution of argument *forms*: a rest parameter (dotted tail
        // or a bare name as the whole parameter list) receives the list of forms, which is then
        // compiled as if it were code.  Excused only for classic builds of sources that have such
        // an inline function.
        let src = v.case.get("source")?.as_str()?;
        if v.case.get("dialect").and_then(|d| d.as_str()) == Some("classic") && inline_with_rest_parameter(src) {
            return Some("classic-inline-rest-parameter-receives-argument-forms");
        }
        // the classic inliner turns (defun-inline F ARGS BODY) into (defmacro F ARGS (qq BODY')) and
        // classic qq has a single level: an (unquote X) inside a qq of BODY is consumed by the
        // wrapper, so X is evaluated when the macro runs, not in the program
        if v.case.get("dialect").and_then(|d| d.as_str()) == Some("classic") && inline_body_contains_qq(src) {
            return Some("classic-qq-inside-inline-body-loses-a-level");
        }
        None
    }
    fn case_timeout(&self) -> (u64, bool) {
        (60, false)
    }
    fn health_floors(&self, _tier: Tier) -> Vec<(&'static str, &'static str, f64)> {
        vec![("checked", "random_case", 0.5), ("compiled", "random_case", 0.85)]
    }
}
