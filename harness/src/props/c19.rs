//! C19 — the compiled output file is replaced atomically (fault enumeration).

use crate::core::*;
use serde_json::{json, Value};
use std::path::{Path, PathBuf};
use std::process::{Command, Stdio};

pub struct C19Prop;
pub static C19: C19Prop = C19Prop;

#[derive(Clone, Copy, Debug, PartialEq)]
pub enum Prior {
    Absent,
    Same,
    SameModuloWhitespace,
    DifferentShorter,
    DifferentLonger,
    ReadOnlyFileDifferent,
    ReadOnlyFileSame,
    ReadOnlyDirSame,
}

pub const PRIORS: &[Prior] = &[
    Prior::Absent,
    Prior::Same,
    Prior::SameModuloWhitespace,
    Prior::DifferentShorter,
    Prior::DifferentLonger,
    Prior::ReadOnlyFileDifferent,
    Prior::ReadOnlyFileSame,
    Prior::ReadOnlyDirSame,
];

pub const HOOK_POINTS: &[u32] = &[1, 2, 3, 4, 10, 11, 12];

fn new_content(big: bool) -> String {
    // hex text like the real output; the long variant takes several write syscalls
    let n = if big { 1_300_000 } else { 64 };
    let mut s = String::with_capacity(n + 1);
    for i in 0..n {
        s.push(char::from(b"0123456789abcdef"[(i * 7 + i / 13) % 16]));
    }
    s.push('\n');
    s
}

fn old_content(p: Prior, new: &str) -> Option<String> {
    match p {
        Prior::Absent => None,
        Prior::Same | Prior::ReadOnlyFileSame | Prior::ReadOnlyDirSame => Some(new.to_string()),
        Prior::SameModuloWhitespace => Some(format!("{}\n\n  ", new.trim_end())),
        Prior::DifferentShorter | Prior::ReadOnlyFileDifferent => Some("ff01ff0280\n".to_string()),
        Prior::DifferentLonger => {
            let mut s = new.to_string();
            s.insert_str(0, &"ab".repeat(700_000));
            Some(s)
        }
    }
}

pub struct Setup {
    pub dir: tempfile::TempDir,
    pub out: PathBuf,
    pub data: PathBuf,
    pub old: Option<String>,
    pub new: String,
    pub drop_privileges: bool,
}

pub fn setup(p: Prior, big_new: bool) -> Setup {
    let dir = tempfile::Builder::new().prefix("c19-").tempdir_in(std::env::temp_dir()).expect("tempdir");
    let sub = dir.path().join("out");
    std::fs::create_dir_all(&sub).unwrap();
    let out = sub.join("prog.clvm.hex");
    let data = dir.path().join("new-content.txt");
    let new = new_content(big_new);
    std::fs::write(&data, &new).unwrap();
    let old = old_content(p, &new);
    if let Some(o) = &old {
        std::fs::write(&out, o).unwrap();
    }
    use std::os::unix::fs::PermissionsExt;
    // the helper runs as an unprivileged user when permissions are part of the scenario
    let drop_privileges = matches!(p, Prior::ReadOnlyFileDifferent | Prior::ReadOnlyFileSame | Prior::ReadOnlyDirSame);
    std::fs::set_permissions(dir.path(), std::fs::Permissions::from_mode(0o755)).unwrap();
    std::fs::set_permissions(&data, std::fs::Permissions::from_mode(0o644)).unwrap();
    match p {
        Prior::ReadOnlyFileDifferent | Prior::ReadOnlyFileSame => {
            std::fs::set_permissions(&out, std::fs::Permissions::from_mode(0o444)).unwrap();
            std::fs::set_permissions(&sub, std::fs::Permissions::from_mode(0o777)).unwrap();
        }
        Prior::ReadOnlyDirSame => {
            std::fs::set_permissions(&out, std::fs::Permissions::from_mode(0o644)).unwrap();
            std::fs::set_permissions(&sub, std::fs::Permissions::from_mode(0o555)).unwrap();
        }
        _ => {
            std::fs::set_permissions(&sub, std::fs::Permissions::from_mode(0o777)).unwrap();
        }
    }
    Setup {
        dir,
        out,
        data,
        old,
        new,
        drop_privileges,
    }
}

/// the invariant: exactly the old or exactly the new contents (absent iff it was absent and
/// has not been replaced yet); no partial file under the target's name
pub fn check_state(s: &Setup) -> Result<&'static str, String> {
    match std::fs::read(&s.out) {
        Err(_) => {
            if s.old.is_none() {
                Ok("absent")
            } else {
                Err("output path vanished".to_string())
            }
        }
        Ok(bytes) => {
            let text = String::from_utf8_lossy(&bytes).to_string();
            if Some(&text) == s.old.as_ref() {
                Ok("old")
            } else if text == s.new {
                Ok("new")
            } else {
                Err(format!(
                    "output holds {} bytes that are neither the old ({}) nor the new ({}) contents; starts {:?}",
                    bytes.len(),
                    s.old.as_ref().map(|o| o.len()).unwrap_or(0),
                    s.new.len(),
                    text.chars().take(40).collect::<String>()
                ))
            }
        }
    }
}

fn helper_cmd(s: &Setup) -> Command {
    let exe = std::env::current_exe().unwrap();
    let mut c = Command::new(exe);
    c.arg("helper-gentle").arg(&s.out).arg(&s.data);
    if s.drop_privileges {
        c.arg("--drop-privileges");
    }
    c.stdin(Stdio::null()).stdout(Stdio::null()).stderr(Stdio::null());
    c
}

pub fn run_hook_case(p: Prior, point: u32, big: bool) -> Result<Option<(&'static str, bool)>, Viol> {
    let s = setup(p, big);
    let log = s.dir.path().join("points.log");
    let mut c = helper_cmd(&s);
    c.env("CHIALISP_VERIF_CRASH_AT", point.to_string()).env("CHIALISP_VERIF_CRASH_LOG", &log);
    let st = c.status().map_err(|e| Viol::new("helper-spawn", "runs", e.to_string(), json!({})))?;
    let crashed = !st.success() && st.code().is_none();
    let reached: Vec<u32> = std::fs::read_to_string(&log).unwrap_or_default().lines().filter_map(|l| l.trim().parse().ok()).collect();
    let case = json!({"prior_state": format!("{p:?}"), "crash_point": point, "big_new_content": big, "points_reached_before": reached, "child_status": format!("{st}")});
    match check_state(&s) {
        Ok(state) => {
            // clause (d): equal contents => the call succeeds even when the target cannot be rewritten
            if !crashed && matches!(p, Prior::ReadOnlyFileSame | Prior::ReadOnlyDirSame | Prior::Same | Prior::SameModuloWhitespace) && !st.success() {
                return Err(Viol::new("equal-content-call-fails", "exit 0", format!("{st}"), case));
            }
            if !crashed && point != 9999 {
                // the point was not on this path
                return Ok(None);
            }
            Ok(Some((state, crashed)))
        }
        Err(m) => Err(Viol::new("partial-or-wrong-output-after-crash", "complete old or complete new contents", m, case)),
    }
}

const TRACED: &str = "openat,write,rename,renameat,renameat2,unlink,unlinkat,fchmod,close,fsync,linkat,ftruncate,chmod";

/// ordered list of the file-related syscalls of an uninjected run of the scenario
pub fn trace_syscalls(p: Prior, big: bool) -> Vec<String> {
    let s = setup(p, big);
    let exe = std::env::current_exe().unwrap();
    let log = s.dir.path().join("strace.log");
    let mut c = Command::new("strace");
    c.arg("-f").arg("-qq").arg("-o").arg(&log).arg("-e").arg(format!("trace={TRACED}")).arg(exe).arg("helper-gentle").arg(&s.out).arg(&s.data);
    if s.drop_privileges {
        c.arg("--drop-privileges");
    }
    c.stdin(Stdio::null()).stdout(Stdio::null()).stderr(Stdio::null());
    let _ = c.status();
    let text = std::fs::read_to_string(&log).unwrap_or_default();
    text.lines()
        .filter_map(|l| {
            // "PID name(args..." 
            let rest = l.split_once(' ').map(|x| x.1).unwrap_or(l).trim_start();
            let name: String = rest.chars().take_while(|c| c.is_ascii_alphanumeric() || *c == '_').collect();
            if !name.is_empty() && rest[name.len()..].starts_with('(') {
                Some(name)
            } else {
                None
            }
        })
        .collect()
}

/// kill the helper (SIGKILL, strace fault injection) right before the j-th file-related
/// syscall of the scenario's own syscall sequence
pub fn run_syscall_case(p: Prior, j: u32, big: bool) -> Result<Option<(&'static str, String)>, Viol> {
    let seq = trace_syscalls(p, big);
    if seq.is_empty() {
        return Err(Viol::new("strace-trace-empty", "a syscall trace", "none (strace unavailable?)", json!({})));
    }
    let Some(name) = seq.get(j as usize).cloned() else {
        return Ok(None);
    };
    let nth = seq[..=j as usize].iter().filter(|n| **n == name).count();
    let s = setup(p, big);
    let exe = std::env::current_exe().unwrap();
    let mut c = Command::new("strace");
    c.arg("-f").arg("-qq").arg("-o").arg("/dev/null")
        .arg("-e").arg(format!("trace={name}"))
        .arg("-e").arg(format!("inject={name}:signal=SIGKILL:when={nth}"))
        .arg(exe).arg("helper-gentle").arg(&s.out).arg(&s.data);
    if s.drop_privileges {
        c.arg("--drop-privileges");
    }
    c.stdin(Stdio::null()).stdout(Stdio::null()).stderr(Stdio::null());
    let st = c.status().map_err(|e| Viol::new("strace-spawn", "runs", e.to_string(), json!({})))?;
    let killed = !st.success() && st.code().is_none() || st.code() == Some(137);
    let case = json!({"prior_state": format!("{p:?}"), "killed_before_syscall": j, "syscall": format!("{name}#{nth}"), "big_new_content": big, "child_status": format!("{st}")});
    match check_state(&s) {
        Ok(state) => {
            if !killed {
                return Ok(None);
            }
            Ok(Some((state, format!("{name}#{nth}"))))
        }
        Err(m) => Err(Viol::new("partial-or-wrong-output-after-kill", "complete old or complete new contents", m, case)),
    }
}

/// W writers loop compile_clvm of the same source to the same target while readers poll it
pub fn run_race_case(writers: usize, readers: usize, millis: u64) -> Result<(u64, u64), Viol> {
    let dir = tempfile::Builder::new().prefix("c19r-").tempdir_in(std::env::temp_dir()).expect("tempdir");
    let src = dir.path().join("prog.clsp");
    // a program whose output is long enough to matter
    let mut body = String::from("(mod (A) (include *standard-cl-21*) (list A");
    for i in 0..400 {
        body.push_str(&format!(" \"constant-number-{i}\""));
    }
    body.push_str("))");
    std::fs::write(&src, &body).unwrap();
    let out = dir.path().join("prog.clvm.hex");
    // expected new contents: one uninterrupted compile
    let exe = std::env::current_exe().unwrap();
    let st = Command::new(&exe).arg("helper-compile").arg(&src).arg(&out).arg("1").status().unwrap();
    if !st.success() {
        return Err(Viol::new("race-setup-compile-failed", "ok", format!("{st}"), json!({})));
    }
    let expected = std::fs::read_to_string(&out).unwrap();
    let old = "ff01ff0280\n".to_string();
    std::fs::write(&out, &old).unwrap();
    let mut kids = vec![];
    for _ in 0..writers {
        kids.push(Command::new(&exe).arg("helper-compile").arg(&src).arg(&out).arg("40").stdout(Stdio::null()).stderr(Stdio::null()).spawn().unwrap());
    }
    let stop = std::sync::Arc::new(std::sync::atomic::AtomicBool::new(false));
    let bad = std::sync::Arc::new(std::sync::Mutex::new(None::<String>));
    let reads = std::sync::Arc::new(std::sync::atomic::AtomicU64::new(0));
    let mut ths = vec![];
    for _ in 0..readers {
        let (stop, bad, reads, out, expected, old) = (stop.clone(), bad.clone(), reads.clone(), out.clone(), expected.clone(), old.clone());
        ths.push(std::thread::spawn(move || {
            while !stop.load(std::sync::atomic::Ordering::Relaxed) {
                match std::fs::read_to_string(&out) {
                    Ok(t) => {
                        reads.fetch_add(1, std::sync::atomic::Ordering::Relaxed);
                        if t != expected && t != old {
                            *bad.lock().unwrap() = Some(format!("read {} bytes, neither old ({}) nor new ({})", t.len(), old.len(), expected.len()));
                            return;
                        }
                    }
                    Err(e) => {
                        *bad.lock().unwrap() = Some(format!("read failed: {e}"));
                        return;
                    }
                }
            }
        }));
    }
    let t0 = std::time::Instant::now();
    let mut compiles = 0u64;
    for mut k in kids {
        let _ = k.wait();
        compiles += 40;
    }
    while t0.elapsed().as_millis() < millis as u128 && bad.lock().unwrap().is_none() {
        std::thread::sleep(std::time::Duration::from_millis(5));
    }
    stop.store(true, std::sync::atomic::Ordering::Relaxed);
    for t in ths {
        let _ = t.join();
    }
    if let Some(m) = bad.lock().unwrap().clone() {
        return Err(Viol::new("reader-saw-partial-output", "complete old or complete new contents at every read", m, json!({"writers": writers, "readers": readers})));
    }
    let fin = std::fs::read_to_string(&out).unwrap_or_default();
    if fin != expected {
        return Err(Viol::new("final-content-not-new", format!("{} bytes", expected.len()), format!("{} bytes", fin.len()), json!({"writers": writers, "readers": readers})));
    }
    Ok((compiles, reads.load(std::sync::atomic::Ordering::Relaxed)))
}

const SYSCALL_MAX: u32 = 60;

impl Prop for C19Prop {
    fn id(&self) -> &'static str {
        "C19"
    }
    fn level(&self) -> &'static str {
        "fault_enumeration"
    }
    fn rule(&self) -> &'static str {
        "Fault enumeration over the output-writing routine (gentle_overwrite -> atomic_write_file, as called by compile_clvm) run in a child process. Prior states of the output path: absent, same contents, same modulo trailing whitespace, different shorter, different longer (2.7 MB), read-only file (different / same), read-only directory (same) -- the permission scenarios run the child as an unprivileged user. (a) every source-level crash point (cfg-guarded hook, abort at point k) x every prior state x {64-byte, 1.3 MB new contents}; (b) the child killed by SIGKILL before its k-th file-related syscall (strace fault injection) for every k up to the last one seen x prior states; (c) 1..8 concurrent writer processes looping compile_clvm of one source to one target while 1..4 reader threads poll it. Oracle: after the crash/kill, and at every concurrent read, the output path holds exactly the old or exactly the new contents (absent only if it was absent); after all writers finish it holds the new contents; with equal contents the call exits 0 even when the target cannot be rewritten. Non-trivial: the child actually died at the injected point (or >= 2 writers raced). Distinct by (prior state, point, size)."
    }
    fn assumptions(&self) -> Vec<&'static str> {
        vec![
            "rename(2) within one directory is atomic on this file system",
            "a crash inside a single write(2) and power-loss durability (no fsync) are outside the enumeration",
            "strace's inject=...:when=k kills the process before the k-th matching syscall",
        ]
    }
    fn sections(&self, tier: Tier) -> Vec<Section> {
        vec![
            Section {
                name: "hook_points",
                kind: SectionKind::Enum {
                    count: (PRIORS.len() * HOOK_POINTS.len() * 2) as u64,
                },
                exhaustive: true,
                what: "every source-level crash point x every prior state x {small, 1.3 MB} new contents",
            },
            Section {
                name: "syscall_kill",
                kind: SectionKind::Enum {
                    count: (PRIORS.len() as u64) * (SYSCALL_MAX as u64) * tier.pick(1, 2),
                },
                exhaustive: true,
                what: "SIGKILL right before each file-related syscall of the scenario's own traced syscall sequence (indices 0..59, past the last syscall of every scenario) x prior states (thorough: both sizes)",
            },
            Section {
                name: "races",
                kind: SectionKind::Enum { count: tier.pick(6, 12) },
                exhaustive: false,
                what: "concurrent writer processes and reader threads on one target (sampled schedules)",
            },
        ]
    }
    fn run(&self, sec: &str, input: &Input, tier: Tier, st: &mut Stats) -> Verdict {
        let Input::Index(i) = input else {
            return Verdict::Skip("bytes input not used");
        };
        let i = *i as usize;
        match sec {
            "hook_points" => {
                let big = i % 2 == 1;
                let point = HOOK_POINTS[(i / 2) % HOOK_POINTS.len()];
                let p = PRIORS[i / (2 * HOOK_POINTS.len())];
                match run_hook_case(p, point, big) {
                    Err(v) => Verdict::Violation(Box::new(v)),
                    Ok(None) => {
                        st.label("crash-point-not-on-this-path");
                        Verdict::Pass
                    }
                    Ok(Some((state, crashed))) => {
                        st.label(&format!("after-crash:{state}"));
                        if crashed {
                            st.nontrivial(i as u64);
                            st.label("child-aborted-at-point");
                            st.sample(|| json!({"section": "hook_points", "prior_state": format!("{p:?}"), "crash_point": point, "big": big, "state_after": state}));
                        }
                        Verdict::Pass
                    }
                }
            }
            "syscall_kill" => {
                let per = PRIORS.len() * SYSCALL_MAX as usize;
                let big = i / per == 1;
                let j = i % per;
                let p = PRIORS[j / SYSCALL_MAX as usize];
                let k = (j % SYSCALL_MAX as usize) as u32;
                let _ = tier;
                match run_syscall_case(p, k, big) {
                    Err(v) => Verdict::Violation(Box::new(v)),
                    Ok(None) => {
                        st.label("k-beyond-last-syscall");
                        Verdict::Pass
                    }
                    Ok(Some((state, sc))) => {
                        st.label(&format!("after-kill:{state}"));
                        st.label(&format!("killed-before:{}", sc.split('#').next().unwrap_or("")));
                        st.nontrivial(10_000 + i as u64);
                        st.sample(|| json!({"section": "syscall_kill", "prior_state": format!("{p:?}"), "killed_before_syscall": sc, "state_after": state}));
                        Verdict::Pass
                    }
                }
            }
            _ => {
                let writers = 1 + i % 8;
                let readers = 1 + (i / 2) % 4;
                match run_race_case(writers, readers, 300) {
                    Err(v) => Verdict::Violation(Box::new(v)),
                    Ok((compiles, reads)) => {
                        st.labeln("race:compiles", compiles);
                        st.labeln("race:reads", reads);
                        if writers >= 2 {
                            st.nontrivial(20_000 + i as u64);
                            st.sample(|| json!({"section": "races", "writers": writers, "readers": readers, "compiles": compiles, "reads": reads}));
                        }
                        Verdict::Pass
                    }
                }
            }
        }
    }
    fn replay(&self, case: &Value, _st: &mut Stats) -> Option<Verdict> {
        let prior = case.get("prior_state")?.as_str()?;
        let p = *PRIORS.iter().find(|p| format!("{p:?}") == prior)?;
        let big = case.get("big_new_content").and_then(|b| b.as_bool()).unwrap_or(false);
        if let Some(k) = case.get("crash_point").and_then(|k| k.as_u64()) {
            return Some(match run_hook_case(p, k as u32, big) {
                Err(v) => Verdict::Violation(Box::new(v)),
                Ok(_) => Verdict::Pass,
            });
        }
        if let Some(k) = case.get("killed_before_syscall").and_then(|k| k.as_u64()) {
            return Some(match run_syscall_case(p, k as u32, big) {
                Err(v) => Verdict::Violation(Box::new(v)),
                Ok(_) => Verdict::Pass,
            });
        }
        None
    }
    fn case_timeout(&self) -> (u64, bool) {
        (120, false)
    }
    fn shards(&self, _tier: Tier) -> Option<usize> {
        Some(8)
    }
}

pub fn helper_gentle(out: &Path, data: &Path, drop_privileges: bool) -> i32 {
    let content = std::fs::read_to_string(data).expect("data");
    if drop_privileges {
        unsafe {
            libc::setgid(65534);
            libc::setuid(65534);
        }
    }
    match chialisp::util::gentle_overwrite("input.clsp", &out.to_string_lossy(), &content) {
        Ok(()) => 0,
        Err(_) => 1,
    }
}

pub fn helper_compile(src: &Path, out: &Path, times: usize) -> i32 {
    for _ in 0..times {
        // force recompilation each time: the entry point skips when the output is newer
        let _ = filetime_touch(src);
        let mut syms = std::collections::HashMap::new();
        if chialisp::classic::clvm_tools::clvmc::compile_clvm(&src.to_string_lossy(), &out.to_string_lossy(), &[], &mut syms).is_err() {
            return 1;
        }
    }
    0
}

fn filetime_touch(p: &Path) -> std::io::Result<()> {
    let f = std::fs::OpenOptions::new().append(true).open(p)?;
    f.set_modified(std::time::SystemTime::now() + std::time::Duration::from_secs(5))
}
