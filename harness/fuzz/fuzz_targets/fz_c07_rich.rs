#![no_main]
// coverage-guided driver for property C07, section "trees": the bytes are the case's choice sequence,
// the property's own oracle runs inside the target (see harness/src/fuzz.rs)
use libfuzzer_sys::fuzz_target;
fuzz_target!(|data: &[u8]| {
    vcheck::fuzz::run("C07", "trees", data);
});
