#![no_main]
// coverage-guided driver for property C08, section "dec_mut": the bytes are the case's choice sequence,
// the property's own oracle runs inside the target (see harness/src/fuzz.rs)
use libfuzzer_sys::fuzz_target;
fuzz_target!(|data: &[u8]| {
    vcheck::fuzz::run("C08", "dec_mut", data);
});
