#!/bin/bash
# Evaluate seeded changes without touching /repo or /verif's build: a private worktree of /repo and a
# private copy of the harness (path dependency rewritten), one lane = one pair of scratch directories.
# usage: tools/mutant_lane.sh LANE TIER MUTANT_DIR [PROPERTY...]      (MUTANT_DIR holds patch.diff + meta.json)
# writes MUTANT_DIR/result-<PROPERTY>-<TIER>.txt ; removes nothing (call with 'clean' as MUTANT_DIR to drop the lane)
set -u
lane=$1; tier=$2; mdir=$3; shift 3
W=/tmp/mlane-$lane/repo; V=/tmp/mlane-$lane/verif
export RUSTUP_TOOLCHAIN=stable-x86_64-unknown-linux-gnu CARGO_NET_OFFLINE=true RUSTFLAGS="--cfg chialisp_verif"
if [ "$mdir" = clean ]; then git -C /repo worktree remove --force $W 2>/dev/null; rm -rf /tmp/mlane-$lane; git -C /repo worktree prune; exit 0; fi
mkdir -p /tmp/mlane-$lane
[ -d $W ] || git -C /repo worktree add -q --detach $W HEAD
git -C $W checkout -q --detach $(git -C /repo rev-parse HEAD) && git -C $W checkout -q -- . && git -C $W clean -fdq
mkdir -p $V/harness
rsync -a --delete --exclude target /verif/harness/ $V/harness/
rsync -a --delete /verif/replays/known /verif/replays/regress $V/replays/ 2>/dev/null || { mkdir -p $V/replays; cp -r /verif/replays/known /verif/replays/regress $V/replays/; }
cp /verif/known_findings.jsonl /verif/properties.jsonl $V/
sed -i "s#path = \"/repo\"#path = \"$W\"#" $V/harness/Cargo.toml
props=${@:-$(python3 -c "import json;print(json.load(open('$mdir/meta.json'))['property'])")}
if ! git -C $W apply $mdir/patch.diff; then echo "PATCH DOES NOT APPLY" > $mdir/result-apply.txt; exit 3; fi
if ! (cd $V/harness && cargo build --release --offline > $V/build.log 2>&1); then
  echo "BUILD FAILED" > $mdir/result-build.txt; tail -20 $V/build.log >> $mdir/result-build.txt; git -C $W checkout -q -- .; exit 3; fi
for p in $props; do
  s=$(date +%s)
  VERIF_ROOT=$V VERIF_SEED=${VERIF_SEED:-1} $V/harness/target/release/vcheck run $p --tier $tier --root $V > $V/run.log 2>&1
  rc=$?; e=$(date +%s)
  { echo "property=$p tier=$tier exit=$rc wall=$((e-s))s seed=${VERIF_SEED:-1}"; grep -E "^(VIOLATION|  violation|    expected|    observed|INFRA|C[0-9]+ )" $V/run.log | cut -c1-400 | head -40; } > $mdir/result-$p-$tier.txt
  # keep the first found replay as a witness
  f=$(ls $V/replays/found/$p-*.json 2>/dev/null | head -1); [ -n "$f" ] && cp $f $mdir/witness-$p.json; rm -rf $V/replays/found
  echo "$(basename $(dirname $mdir))/$(basename $mdir) $(head -1 $mdir/result-$p-$tier.txt)"
done
git -C $W checkout -q -- .
