#!/bin/bash
# Run every quick check on the UNCHANGED tree with a given seed, in a private copy (own worktree of
# /repo at HEAD + own harness copy), so that several seeds can run side by side without touching
# /verif's build or evidence.  usage: tools/silence_lane.sh LANE SEED [IDs...]
# appends one line per check to /verif/notes/silence/seed-SEED.txt
set -u
lane=$1; seed=$2; shift 2
W=/tmp/mlane-$lane/repo; V=/tmp/mlane-$lane/verif
export RUSTUP_TOOLCHAIN=stable-x86_64-unknown-linux-gnu CARGO_NET_OFFLINE=true RUSTFLAGS="--cfg chialisp_verif"
mkdir -p /tmp/mlane-$lane /verif/notes/silence
[ -d $W ] || git -C /repo worktree add -q --detach $W HEAD
git -C $W checkout -q --detach $(git -C /repo rev-parse HEAD) && git -C $W checkout -q -- . && git -C $W clean -fdq
mkdir -p $V/harness $V/replays
rsync -a --delete --exclude target /verif/harness/ $V/harness/
rsync -a --delete /verif/replays/known /verif/replays/regress $V/replays/
cp /verif/known_findings.jsonl /verif/properties.jsonl $V/
sed -i "s#path = \"/repo\"#path = \"$W\"#" $V/harness/Cargo.toml
(cd $V/harness && cargo build --release --offline > $V/build.log 2>&1) || { echo "BUILD FAILED"; exit 3; }
ids=${@:-$(python3 -c "import json;print(' '.join(c['property_id'] for c in json.load(open('/verif/MANIFEST.json'))['checks']))")}
out=/verif/notes/silence/seed-$seed.txt
echo "# head $(git -C /repo rev-parse --short HEAD) harness $(git -C /verif rev-parse --short HEAD) $(date -u +%FT%TZ)" >> $out
for p in $ids; do
  s=$(date +%s)
  VERIF_ROOT=$V VERIF_SEED=$seed $V/harness/target/release/vcheck run $p --tier quick --root $V > $V/run-$p.log 2>&1
  rc=$?; e=$(date +%s)
  echo "$p seed=$seed exit=$rc wall=$((e-s))s violations=$(grep -c '^VIOLATION' $V/run-$p.log) | $(tail -1 $V/run-$p.log | cut -c1-150)" >> $out
  if [ $rc -ne 0 ]; then mkdir -p /verif/notes/silence/failures; cp $V/run-$p.log /verif/notes/silence/failures/$p-seed$seed.log; cp $V/replays/found/$p-*.json /verif/notes/silence/failures/ 2>/dev/null; fi
  rm -rf $V/replays/found
done
