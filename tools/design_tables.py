#!/usr/bin/env python3
"""Regenerate section 10 of DESIGN.md (between the markers) from notes/silence/*.txt, seeded/RESULTS.md
and notes/regress-validation.txt."""
import glob, re, os, subprocess
subprocess.run(['python3', '/verif/tools/seeded_table.py'], capture_output=True)
out = ['<!-- BEGIN GENERATED §10 -->', '']
# silence
out += ['### 10.1 Silence on the unchanged tree', '',
        'Every quick check, run from a fresh process in a private copy of the committed harness against a private worktree of',
        '/repo at HEAD (`tools/silence_lane.sh`), one row per seed.  `0` = exit 0 (held; known findings may have been printed),',
        '`1` = exit 1, `2` = exit 2.  Wall times are under the load of other runs on the same 16 cores.', '']
rows = {}
for f in sorted(glob.glob('/verif/notes/silence/seed-*.txt')):
    seed = re.search(r'seed-(\d+)', f).group(1)
    for l in open(f):
        m = re.match(r'(C\d\d) seed=\d+ exit=(\d) wall=(\d+)s', l)
        if m: rows.setdefault(seed, {})[m.group(1)] = (m.group(2), int(m.group(3)))
ids = [f'C{n:02d}' for n in range(1, 21)]
out.append('| seed | ' + ' | '.join(i[1:] for i in ids) + ' | total wall |')
out.append('|---|' + '---|' * (len(ids) + 1))
for seed in sorted(rows, key=int):
    r = rows[seed]
    out.append(f'| {seed} | ' + ' | '.join(r.get(i, ('–', 0))[0] for i in ids) + f' | {sum(v[1] for v in r.values())} s |')
out += ['']
# seeded
out += ['### 10.2 Seeded changes', '']
res = open('/verif/seeded/RESULTS.md').read().splitlines()
caught = sum(1 for l in res if '**caught**' in l); missed = sum(1 for l in res if '| missed |' in l)
out += [f'{caught} rows caught, {missed} rows missed in the last pass over all changes with the final harness.  Full table with the first',
        'violation signatures: `seeded/RESULTS.md`; each change with the author\'s own demonstration: `seeded/<ID>/<m>/`.', '']
out += [l for l in res if l.startswith('|')]
out += ['']
# regress
p = '/verif/notes/regress-validation.txt'
if os.path.exists(p):
    out += ['### 10.3 Fix-revert validation of the regress replays', '', '```'] + [l.rstrip() for l in open(p)] + ['```', '']
out += ['<!-- END GENERATED §10 -->']
s = open('/verif/DESIGN.md').read()
block = '\n'.join(out)
if '<!-- BEGIN GENERATED §10 -->' in s:
    s = re.sub(r'<!-- BEGIN GENERATED §10 -->.*<!-- END GENERATED §10 -->', lambda m: block, s, flags=re.S)
else:
    s += '\n---------------------------------------------------------------------------------------------\n\n## 10. Validation results\n\n' + block + '\n'
open('/verif/DESIGN.md', 'w').write(s)
print('ok', caught, missed)
