#!/usr/bin/env python3
"""Hierarchical delta-debugging over an s-expression text (analysis aid for findings).
usage: sexp_reduce.py FILE 'shell predicate using {} as the candidate file'  (exit 0 = still interesting)
Writes the reduced text to FILE.min"""
import subprocess, sys, tempfile, os

def tokenize(s):
    i, n, out = 0, len(s), []
    while i < n:
        ch = s[i]
        if ch.isspace(): i += 1
        elif ch == ';':
            while i < n and s[i] != '\n': i += 1
        elif ch in '()': out.append(ch); i += 1
        elif ch in '"\'':
            j = i + 1
            while j < n and s[j] != ch:
                if s[j] == '\\': j += 1
                j += 1
            out.append(s[i:j+1]); i = j + 1
        else:
            j = i
            while j < n and not s[j].isspace() and s[j] not in '()': j += 1
            out.append(s[i:j]); i = j
    return out

def parse(toks):
    pos = 0
    def rd():
        nonlocal pos
        t = toks[pos]; pos += 1
        if t == '(':
            lst = []
            while toks[pos] != ')': lst.append(rd())
            pos += 1
            return lst
        return t
    return rd()

def render(t):
    if isinstance(t, list): return '(' + ' '.join(render(x) for x in t) + ')'
    return t

def interesting(tree, pred):
    with tempfile.NamedTemporaryFile('w', suffix='.clsp', delete=False) as f:
        f.write(render(tree)); name = f.name
    try:
        r = subprocess.run(pred.replace('{}', name), shell=True, stdout=subprocess.DEVNULL, stderr=subprocess.DEVNULL)
        return r.returncode == 0
    finally:
        os.unlink(name)

def paths(t, p=()):
    yield p
    if isinstance(t, list):
        for i, x in enumerate(t): yield from paths(x, p + (i,))

def get(t, p):
    for i in p: t = t[i]
    return t

def replace(t, p, new):
    if not p: return new
    c = list(t); c[p[0]] = replace(t[p[0]], p[1:], new); return c

def delete(t, p):
    if len(p) == 1:
        c = list(t); del c[p[0]]; return c
    c = list(t); c[p[0]] = delete(t[p[0]], p[1:]); return c

def main():
    fn, pred = sys.argv[1], sys.argv[2]
    tree = parse(tokenize(open(fn).read()))
    assert interesting(tree, pred), "original is not interesting"
    changed = True
    while changed:
        changed = False
        ps = sorted(paths(tree), key=lambda p: (len(p), p))
        for p in ps:
            try: sub = get(tree, p)
            except Exception: continue
            if not p: continue
            # 1. delete element
            cand = delete(tree, p)
            if interesting(cand, pred):
                tree = cand; changed = True; print('del', len(render(tree)), file=sys.stderr); break
            # 2. replace subtree by simpler
            if isinstance(sub, list):
                done = False
                for new in (['()'] if False else ['1', '()'] ) + [x for x in sub if True][:6]:
                    cand = replace(tree, p, new)
                    if render(cand) != render(tree) and len(render(cand)) < len(render(tree)) and interesting(cand, pred):
                        tree = cand; changed = True; done = True; print('rep', len(render(tree)), file=sys.stderr); break
                if done: break
    open(fn + '.min', 'w').write(render(tree) + '\n')
    print(render(tree))

main()
