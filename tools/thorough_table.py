#!/usr/bin/env python3
"""markdown table from notes/thorough/pass.txt: per property the first and the last thorough run on the unchanged tree"""
import re, collections
runs = collections.OrderedDict()
for l in open('/verif/notes/thorough/pass.txt'):
    m = re.match(r'(C\d\d) seed=(\d+) tier=thorough exit=(\S+) wall=(\S+) (\d+) violations; .*evaluations=(\d+) distinct_nontrivial=(\d+) violations=(\d+) known_hit=(\d+)', l)
    if m: runs.setdefault(m.group(1), []).append(m.groups())
print("| ID | first run: exit, unlisted violations | last run: exit | wall | cases judged (distinct non-trivial) | listed findings met |")
print("|----|----|----|----|----|----|")
for k in sorted(runs):
    f, l = runs[k][0], runs[k][-1]
    first = f"exit {f[2]}, {f[4]}" if len(runs[k]) > 1 else "(same run)"
    print(f"| {k} | {first} | exit {l[2]} | {l[3]} | {int(l[5]):,} ({int(l[6]):,}) | {l[8]} |")
