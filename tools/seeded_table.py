#!/usr/bin/env python3
"""Regenerate seeded/RESULTS.md from seeded/<ID>/<m>/{meta.json,result-*.txt}."""
import json, glob, os, re
rows = []
for meta in sorted(glob.glob('/verif/seeded/C*/m*/meta.json')):
    d = os.path.dirname(meta)
    m = json.load(open(meta))
    pid, mut = d.split('/')[-2], d.split('/')[-1]
    res = {}
    for r in sorted(glob.glob(d + '/result-*.txt')):
        first = open(r).readline().strip()
        mm = re.search(r'property=(\S+) tier=(\S+) exit=(\d+) wall=(\d+)s', first)
        if mm:
            sigs = [l.strip()[len('violation sig='):].split(' occurrences')[0] for l in open(r) if l.strip().startswith('violation sig=')]
            res[(mm.group(1), mm.group(2))] = (int(mm.group(3)), int(mm.group(4)), sigs)
        else:
            res[(os.path.basename(r), '')] = (None, 0, [first])
    rows.append((pid, mut, m, res))
out = ['# Seeded changes and what the checks made of them', '',
       'Each change was written by an independent agent that saw only the property text and a private worktree;',
       'each compiles and passes all 614 existing tests (the agent\'s own demonstration is in `demo.md` next to the patch).',
       '`caught` = the named check exited 1 with a VIOLATION line on the tree with the change applied (and exits 0 without it).', '',
       '| change | what it does | check run | result | wall | first signatures |', '|---|---|---|---|---|---|']
for pid, mut, m, res in rows:
    what = (m.get('summary') or '').replace('|', '/').replace('\n', ' ')
    if len(what) > 230: what = what[:227] + '...'
    if not res:
        out.append(f'| {pid}/{mut} | {what} | — | not run yet | | |')
    for (p, tier), (rc, wall, sigs) in sorted(res.items()):
        verdict = {1: '**caught**', 0: 'missed', 2: 'inconclusive (exit 2)', None: 'n/a'}.get(rc, f'exit {rc}')
        out.append(f'| {pid}/{mut} | {what} | {p} {tier} | {verdict} | {wall}s | {"; ".join(sigs[:2])[:160]} |')
open('/verif/seeded/RESULTS.md', 'w').write('\n'.join(out) + '\n')
print('\n'.join(out[7:]))
