#!/bin/bash
# run every registered quick (or thorough) check once with the given seed; one summary line per check
# usage: tools/run_all.sh SEED [quick|thorough] [IDs...]
seed=${1:-1}; tier=${2:-quick}; shift 2
ids=${@:-$(python3 -c "import json;print(' '.join(c['property_id'] for c in json.load(open('/verif/MANIFEST.json'))['checks']))")}
mkdir -p /verif/harness/target/runall
cd /verif
for id in $ids; do
  s=$(date +%s)
  VERIF_SEED=$seed ./check $id --tier $tier > harness/target/runall/$id-$seed-$tier.log 2>&1
  rc=$?
  e=$(date +%s)
  echo "$id seed=$seed tier=$tier exit=$rc wall=$((e-s))s $(grep -c '^VIOLATION' harness/target/runall/$id-$seed-$tier.log) violations; $(tail -1 harness/target/runall/$id-$seed-$tier.log | cut -c1-160)"
done
