#!/bin/bash
# run a command with /repo's src temporarily at the original snapshot (9a68dea), then restore.
# (analysis aid: decides whether a finding pre-dates the fix commits)
set -e
cd /repo
if [ -n "$(git status --porcelain)" ]; then echo "repo dirty"; exit 2; fi
git checkout -q 9a68dea -- src/
(cd /verif/harness && RUSTUP_TOOLCHAIN=stable-x86_64-unknown-linux-gnu CARGO_NET_OFFLINE=true RUSTFLAGS="--cfg chialisp_verif" cargo build --release --offline 2>&1 | grep -E "^error" -A5 || true)
set +e
"$@"
rc=$?
cd /repo && git checkout -q HEAD -- src/
(cd /verif/harness && RUSTUP_TOOLCHAIN=stable-x86_64-unknown-linux-gnu CARGO_NET_OFFLINE=true RUSTFLAGS="--cfg chialisp_verif" cargo build --release --offline 2>&1 | grep -E "^error" -A5 || true)
exit $rc
