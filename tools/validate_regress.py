#!/usr/bin/env python3
"""For every `fixed` entry of known_findings.jsonl: reverse-apply its fix commit in /repo's working tree,
rebuild the harness, run the entry's regress replay and expect a violation (or a crash/timeout);
restore the tree afterwards. Analysis aid: shows that each committed regress replay detects the
defect it stands for.  usage: validate_regress.py [PROPERTY ...]"""
import json, subprocess, sys, os
ENV = dict(os.environ, RUSTUP_TOOLCHAIN="stable-x86_64-unknown-linux-gnu", CARGO_NET_OFFLINE="true", RUSTFLAGS="--cfg chialisp_verif", VERIF_ROOT="/verif")
def sh(cmd, **kw): return subprocess.run(cmd, shell=True, capture_output=True, text=True, env=ENV, **kw)
W = '/tmp/mlane-v/repo'; V = '/tmp/mlane-v/verif'
def build():
    r = sh(f"cd {V}/harness && cargo build --release --offline 2>&1 | grep -E '^error' -A6")
    return r.stdout.strip() == ""
# private worktree of /repo at HEAD and private copy of the harness: /repo and /verif stay untouched
os.makedirs('/tmp/mlane-v', exist_ok=True)
if not os.path.isdir(W): sh(f"git -C /repo worktree add -q --detach {W} HEAD")
sh(f"git -C {W} checkout -q --detach $(git -C /repo rev-parse HEAD) && git -C {W} checkout -q -- . && git -C {W} clean -fdq")
sh(f"mkdir -p {V}/harness && rsync -a --delete --exclude target /verif/harness/ {V}/harness/ && mkdir -p {V}/replays && rsync -a --delete /verif/replays/known /verif/replays/regress {V}/replays/ && cp /verif/known_findings.jsonl /verif/properties.jsonl {V}/")
sh(f"sed -i 's#path = \"/repo\"#path = \"{W}\"#' {V}/harness/Cargo.toml")
ENV['VERIF_ROOT'] = V
want = set(sys.argv[1:])
rows = [json.loads(l) for l in open('/verif/known_findings.jsonl') if l.strip()]
out = []
try:
    for r in rows:
        if r.get('status') != 'fixed' or (want and r['property'] not in want): continue
        reg = r.get('regress')
        if not reg or not os.path.exists('/verif/' + reg):
            out.append((r['property'], r['id'], r['commit'], 'NO-REPLAY')); continue
        # later fix commits that rewrote the same lines are reverted first (field revert_with)
        for extra in r.get('revert_with', []):
            sh(f"git -C /repo show {extra} -- src | git -C {W} apply -R")
        a = sh(f"git -C /repo show {r['commit']} -- src | git -C {W} apply -R")
        if a.returncode != 0:
            out.append((r['property'], r['id'], r['commit'], 'REVERT-FAILED ' + a.stderr.strip()[:80])); sh(f"git -C {W} checkout -- ."); continue
        if not build():
            out.append((r['property'], r['id'], r['commit'], 'BUILD-FAILED')); sh(f"git -C {W} checkout -- ."); continue
        try:
            p = subprocess.run([V + '/harness/target/release/vcheck', 'replay', V + '/' + reg, '--root', V], capture_output=True, text=True, timeout=60, env=ENV)
            if '"verdict": "violation"' in p.stdout: res = 'DETECTED violation'
            elif p.returncode != 0: res = f'DETECTED exit {p.returncode}'
            else: res = 'MISSED (replay passes without the fix)'
        except subprocess.TimeoutExpired:
            res = 'DETECTED timeout'
        out.append((r['property'], r['id'], r['commit'], res))
        sh(f"git -C {W} checkout -- .")
        print(out[-1], flush=True)
finally:
    sh(f"git -C {W} checkout -- .")
    build()
with open('/verif/notes/regress-validation.txt', 'w') as f:
    for o in out: f.write(' '.join(o) + '\n')
print('missed:', [o for o in out if not o[3].startswith('DETECTED')])
