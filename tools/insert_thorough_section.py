#!/usr/bin/env python3
"""(re)write DESIGN.md section 10.4 from notes/thorough/section-10.4.md + tools/thorough_table.py"""
import subprocess
p='/verif/DESIGN.md'; s=open(p).read()
marker='<!-- END GENERATED §10 -->'
i=s.index(marker)+len(marker)
head=s[:i]
text=open('/verif/notes/thorough/section-10.4.md').read()
table=subprocess.run(['python3','/verif/tools/thorough_table.py'],capture_output=True,text=True).stdout
open(p,'w').write(head+'\n'+text+table+'\n')
