#!/bin/bash
# Coverage-guided campaign for one property (second half of the thorough tier of C04, C06, C07, C08,
# C09, C12, C14, C15): libFuzzer drives the property's own case decoder + oracle
# (harness/fuzz/fuzz_targets/*, harness/src/fuzz.rs).  Crash / timeout artifacts are re-judged by
# the ordinary harness binary (`vcheck one`), so the verdict -- violation, known finding, or not
# reproducible -- is the same machinery as everywhere else.
# usage: tools/fuzz_campaign.sh <ID> [seconds-per-target]     exit 0 held / 1 violation / 2 infrastructure
set -u
ID=${1:?property id}; SECS=${2:-300}
ROOT="$(cd "$(dirname "$0")/.." && pwd)"
export RUSTUP_TOOLCHAIN_SAVED="${RUSTUP_TOOLCHAIN:-}" CARGO_NET_OFFLINE=true RUSTFLAGS="--cfg chialisp_verif" VERIF_ROOT="$ROOT"
unset RUSTUP_TOOLCHAIN
SEED=${VERIF_SEED:-0}; [ "$SEED" = 0 ] && SEED=1      # libFuzzer: 0 means random
case "$ID" in
  C04) TARGETS="c04_optimizer:random:400";;
  C06) TARGETS="c06_stepper:random:400";;
  C07) TARGETS="c07_rich:trees:400";;
  C08) TARGETS="c08_decoder:dec_mut:300 c08_encoder:enc_trees:400";;
  C09) TARGETS="c09_printers:trees:400";;
  C12) TARGETS="c12_raw_trace:raw:400";;
  C14) TARGETS="c14_frontends:inputs:700";;
  C15) TARGETS="c15_layout:layout:800 c15_errors:errors:400";;
  *) echo "FUZZ: no coverage-guided target for $ID"; exit 0;;
esac
cd "$ROOT/harness" || exit 2
mkdir -p "$ROOT/harness/target"
if ! cargo +nightly fuzz build -O -s none > "$ROOT/harness/target/fuzz-build.log" 2>&1; then
  tail -5 "$ROOT/harness/target/fuzz-build.log"
  echo "FUZZ-SKIPPED: the libFuzzer targets did not build (see harness/target/fuzz-build.log); not a verdict"
  exit 0
fi
BIN="$ROOT/harness/target/release/vcheck"
rc=0; summary=""
for t in $TARGETS; do
  name=${t%%:*}; rest=${t#*:}; sec=${rest%%:*}; maxlen=${rest#*:}
  corpus="$ROOT/harness/fuzz/corpus/fz_$name"; art="$ROOT/harness/fuzz/artifacts/fz_$name/"
  mkdir -p "$corpus" "$art"; rm -f "$art"/*
  log="$ROOT/harness/target/fuzz-$name.log"
  cargo +nightly fuzz run -O -s none "fz_$name" -- -max_total_time=$SECS -seed=$SEED -max_len=$maxlen -len_control=0 \
      -timeout=30 -rss_limit_mb=6000 -fork=12 -ignore_crashes=1 -ignore_timeouts=1 -ignore_ooms=1 -artifact_prefix="$art" > "$log" 2>&1
  stats=$(grep -E "^#[0-9]+: cov:" "$log" | tail -1)
  execs=$(echo "$stats" | sed -E 's/^#([0-9]+):.*/\1/'); cov=$(echo "$stats" | sed -E 's/.*cov: ([0-9]+).*/\1/')
  ncorp=$(ls "$corpus" | wc -l)
  nart=$(ls "$art" 2>/dev/null | wc -l)
  viol=0; known=0; gone=0
  for a in "$art"/*; do
    [ -f "$a" ] || continue
    xxd -p "$a" | tr -d '\n' > "$a.hex"
    out="$a.verdict.json"
    timeout 120 "$BIN" one "$ID" --tier thorough --sec "$sec" --root "$ROOT" --hexfile "$a.hex" --out "$out" > /dev/null 2>&1
    st=$?
    if [ -s "$out" ] && grep -q '"verdict": *"violation"' "$out"; then
      if grep -q '"known": *"' "$out"; then known=$((known+1)); else
        viol=$((viol+1)); mkdir -p "$ROOT/replays/found"; dest="$ROOT/replays/found/$ID-fuzz-$(basename "$a" | cut -c1-24).json"
        python3 - "$out" "$dest" "$ID" "$sec" "$a.hex" <<'PY'
import json,sys
v=json.load(open(sys.argv[1])); viol=v.get("violation",{})
json.dump({"property":sys.argv[3],"section":sys.argv[4],"tier":"thorough","choices_hex":open(sys.argv[5]).read().strip(),"signature":viol.get("signature"),"expected":viol.get("expected"),"observed":viol.get("observed"),"case":viol.get("case"),"found_by":"libFuzzer artifact re-judged by vcheck one"},open(sys.argv[2],"w"),indent=1)
PY
        echo "VIOLATION property=$ID replay=$dest"; rc=1
      fi
    elif [ $st -ne 0 ] && [ ! -s "$out" ]; then
      # the ordinary binary died or timed out on it as well: a crash/hang of the code under test
      if [ "$ID" = C14 ]; then
        dest="$ROOT/replays/found/$ID-fuzz-$(basename "$a" | cut -c1-24).json"; mkdir -p "$ROOT/replays/found"
        echo "{\"property\":\"$ID\",\"section\":\"$sec\",\"choices_hex\":\"$(cat "$a.hex")\",\"signature\":\"abort-or-timeout\",\"found_by\":\"libFuzzer artifact; vcheck one exit $st\"}" > "$dest"
        echo "FUZZ-NOTE property=$ID artifact $(basename "$a") kills or hangs the ordinary binary too (exit $st); run ./check $ID to have it classified (known hang mechanisms are listed)"; 
      fi
      gone=$((gone+1))
    else gone=$((gone+1)); fi
  done
  summary="$summary {\"target\":\"fz_$name\",\"section\":\"$sec\",\"seconds\":$SECS,\"seed\":$SEED,\"execs\":${execs:-0},\"coverage_edges\":${cov:-0},\"corpus_files\":$ncorp,\"artifacts\":$nart,\"artifacts_violations\":$viol,\"artifacts_known_findings\":$known,\"artifacts_not_violations\":$gone},"
  echo "FUZZ $ID fz_$name: execs=${execs:-0} cov=${cov:-0} corpus=$ncorp artifacts=$nart violations=$viol known=$known other=$gone"
done
# record the campaign in the evidence file written by the generator-driven part
python3 - "$ROOT/evidence/$ID.json" "[${summary%,}]" <<'PY'
import json,sys
p=sys.argv[1]
try: e=json.load(open(p))
except Exception: sys.exit(0)
e.setdefault("coverage",{})["coverage_guided_campaigns"]=json.loads(sys.argv[2])
json.dump(e,open(p,"w"),indent=1)
PY
exit $rc
