#!/bin/bash
# run the thorough command core (./check ID --tier thorough) of the given properties one after the
# other on /repo, keep the committed quick-tier evidence in evidence/ and store the thorough-tier
# evidence under evidence-thorough/; one summary line per property in notes/thorough/pass.txt
# usage: tools/thorough_pass.sh SEED IDs...
seed=$1; shift
cd /verif; mkdir -p evidence-thorough notes/thorough harness/target/runall
for id in "$@"; do
  cp evidence/$id.json harness/target/runall/$id.quick-evidence.json
  s=$(date +%s)
  VERIF_SEED=$seed ./check $id --tier thorough > harness/target/runall/$id-$seed-thorough.log 2>&1
  rc=$?
  e=$(date +%s)
  cp evidence/$id.json evidence-thorough/$id.json
  cp harness/target/runall/$id.quick-evidence.json evidence/$id.json
  echo "$id seed=$seed tier=thorough exit=$rc wall=$((e-s))s $(grep -c '^VIOLATION' harness/target/runall/$id-$seed-thorough.log) violations; $(tail -1 harness/target/runall/$id-$seed-thorough.log | cut -c1-200)" | tee -a notes/thorough/pass.txt
done
