#!/bin/bash
# run the pinned baseline of /repo (guard off); exit 0 only when all 614 pass
cd /repo
export RUSTUP_TOOLCHAIN=stable-x86_64-unknown-linux-gnu CARGO_NET_OFFLINE=true
out=$(cargo nextest run --workspace --no-fail-fast --tool-config-file pb:/w/lib/nextest.toml --profile pb --test-threads 16 --offline 2>&1)
echo "$out" | grep -E "Summary|FAIL" | tail -5
echo "$out" | grep -q "614 tests run: 614 passed" 
